#!/venv/bin/python
"""Self-test of the checkers ("test the checker both ways").

Applies each variant of selftest/variants.py (a single textual edit of the package source)
to a scratch copy under $TMPDIR, runs the listed checks against the copy
(SMSTATIC_REPO=<copy>) and asserts the expected verdict:
   'V'  exit 1 with a VIOLATION line        (a property-breaking mutant must be caught)
   'P'  exit 0                                (a behaviour-preserving refactor must not alarm)
   'P2' exit 0 or 2                           (refactor the recognisers may not follow: never exit 1)
Scratch copies are removed immediately.  Not a manifest check.

usage: run.py [-k substring] [-j jobs] [--tier quick|thorough] [--list]
"""
import argparse
import concurrent.futures as cf
import os
import shutil
import subprocess
import sys
import tempfile

HERE = os.path.dirname(os.path.abspath(__file__))
sys.path.insert(0, HERE)
from variants import VARIANTS  # noqa: E402


def apply_variant(v, root):
    for (old, new) in v.get("sed", []):
        n = 0
        for dp, _dn, fns in os.walk(os.path.join(root, "src", "smoothmath")):
            for fn in fns:
                if fn.endswith(".py"):
                    p = os.path.join(dp, fn)
                    s = open(p).read()
                    if old in s:
                        n += s.count(old)
                        open(p, "w").write(s.replace(old, new))
        if n == 0:
            raise RuntimeError(f"{v['id']}: sed pattern {old!r} occurs nowhere")
    for (file, old, new) in v["edits"]:
        p = os.path.join(root, "src", "smoothmath", file)
        s = open(p).read()
        cnt = v.get("count", 1)
        if s.count(old) != cnt:
            raise RuntimeError(f"{v['id']}: pattern occurs {s.count(old)}x in {file}, expected {cnt}: {old[:60]!r}")
        open(p, "w").write(s.replace(old, new))


def run_variant(v, tier):
    d = tempfile.mkdtemp(prefix="smself_")
    try:
        shutil.copytree(os.environ.get("SELFTEST_SRC", "/repo/src"), os.path.join(d, "src"))
        try:
            apply_variant(v, d)
        except RuntimeError as e:
            return v["id"], [("-", "EDIT-FAILED", str(e), False)]
        # the variant must still be valid Python
        r = subprocess.run(["/venv/bin/python", "-m", "compileall", "-q", os.path.join(d, "src")],
                           capture_output=True, text=True)
        if r.returncode != 0:
            return v["id"], [("-", "SYNTAX", r.stdout[-300:], False)]
        out = []
        for chk, want in v["expect"].items():
            env = dict(os.environ, SMSTATIC_REPO=d, SMSTATIC_EVIDENCE_DIR=os.path.join(d, "evidence"))
            r = subprocess.run([os.path.join(os.path.dirname(HERE), "check"), chk, "--tier", tier],
                               capture_output=True, text=True, env=env)
            has_v = "VIOLATION property=" in r.stdout
            if want == "V":
                ok = r.returncode == 1 and has_v
            elif want == "P":
                ok = r.returncode == 0 and not has_v
            else:
                ok = r.returncode in (0, 2) and not has_v
            detail = ""
            if not ok or os.environ.get("SELFTEST_VERBOSE"):
                lines = [l for l in r.stdout.splitlines() if not l.startswith("WARNING")]
                detail = "\n".join(lines[-6:])[:1200] + ("\n" + r.stderr[-400:] if r.returncode == 2 else "")
            out.append((chk, f"exit{r.returncode}", detail, ok))
        return v["id"], out
    finally:
        shutil.rmtree(d, ignore_errors=True)


def main():
    ap = argparse.ArgumentParser()
    ap.add_argument("-k", default="")
    ap.add_argument("-j", type=int, default=16)
    ap.add_argument("--tier", default="quick")
    ap.add_argument("--list", action="store_true")
    a = ap.parse_args()
    vs = [v for v in VARIANTS if a.k in v["id"] or a.k in " ".join(v["expect"])]
    if a.list:
        for v in vs:
            print(v["id"], v["expect"], "-", v.get("what", ""))
        return 0
    bad = 0
    with cf.ThreadPoolExecutor(max_workers=max(1, a.j // 4)) as ex:
        for vid, res in ex.map(lambda v: run_variant(v, a.tier), vs):
            for chk, got, detail, ok in res:
                print(f"{'ok  ' if ok else 'FAIL'} {vid:55s} {chk} {got}")
                if detail:
                    print("      " + detail.replace("\n", "\n      "))
                bad += 0 if ok else 1
    print(f"{len(vs)} variants, {bad} unexpected verdicts")
    return 1 if bad else 0


if __name__ == "__main__":
    sys.exit(main())
