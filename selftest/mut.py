#!/venv/bin/python
"""Ad-hoc mutant runner: mut.py <file-rel-to-src/smoothmath> <old> <new> -- <check ids...>
Copies /repo/src to a scratch dir, applies one textual replacement (must match exactly once
unless --all), runs the given checks with SMSTATIC_REPO pointing at the copy, removes it."""
import os, shutil, subprocess, sys, tempfile

def run(file, old, new, checks, tier="quick", count=1, verbose=True):
    d = tempfile.mkdtemp(prefix="smmut_")
    try:
        shutil.copytree("/repo/src", os.path.join(d, "src"))
        p = os.path.join(d, "src", "smoothmath", file)
        s = open(p).read()
        if s.count(old) != count:
            raise SystemExit(f"pattern occurs {s.count(old)} times in {file}, expected {count}")
        open(p, "w").write(s.replace(old, new))
        out = {}
        for c in checks:
            env = dict(os.environ, SMSTATIC_REPO=d)
            r = subprocess.run(["/verif/check", c, "--tier", tier], capture_output=True, text=True, env=env)
            out[c] = (r.returncode, r.stdout)
            if verbose:
                print(f"== {c}: exit {r.returncode}")
                print("\n".join(l for l in r.stdout.splitlines() if not l.startswith("WARNING"))[-1500:])
                if r.returncode == 2:
                    print(r.stderr[-800:])
        return out
    finally:
        shutil.rmtree(d, ignore_errors=True)

if __name__ == "__main__":
    a = sys.argv[1:]
    i = a.index("--")
    file, old, new = a[0], a[1], a[2]
    run(file, old.encode().decode("unicode_escape"), new.encode().decode("unicode_escape"), a[i+1:])
