#!/venv/bin/python
"""Confirm a sub-agent's seeded change myself and store it under /verif/seeded/.

usage: import_seed.py <dir with change_k.diff, demo_k.py, meta_k.json> [...]
For every k: in a fresh scratch worktree of /repo (outside /repo and /verif): the patch must
apply, the pinned suite must still pass (150), the demonstration must exit 1 with the change
and 0 without it.  Only then is it kept as seeded/<property>-<k>-<slug>/{patch.diff, demo.py,
meta.json}.  The scratch worktree is removed afterwards."""
import json
import os
import re
import shutil
import subprocess
import sys

VERIF = os.path.dirname(os.path.dirname(os.path.abspath(__file__)))


def sh(cmd, **kw):
    return subprocess.run(cmd, capture_output=True, text=True, **kw)


def main(dirs):
    tag = ""
    if dirs and dirs[0].startswith("--tag="):
        tag = dirs[0].split("=", 1)[1] + "-"
        dirs = dirs[1:]
    wt = "/tmp/wt_confirm"
    sh(["git", "-C", "/repo", "worktree", "remove", "--force", wt])
    r = sh(["git", "-C", "/repo", "worktree", "add", "--detach", wt, "HEAD"])
    if r.returncode != 0:
        print(r.stderr)
        return 2
    try:
        for d in dirs:
            for fn in sorted(os.listdir(d)):
                m = re.fullmatch(r"change_(\d+)\.diff", fn)
                if not m:
                    continue
                k = m.group(1)
                diff = os.path.join(d, fn)
                demo = os.path.join(d, f"demo_{k}.py")
                metaf = os.path.join(d, f"meta_{k}.json")
                if not (os.path.isfile(demo) and os.path.isfile(metaf)):
                    print(f"{d} #{k}: incomplete (demo/meta missing)")
                    continue
                meta = json.load(open(metaf))
                sh(["git", "-C", wt, "checkout", "--", "."])
                a = sh(["git", "-C", wt, "apply", diff])
                if a.returncode != 0:
                    print(f"{d} #{k}: patch does not apply: {a.stderr[:200]}")
                    continue
                t = sh(["/venv/bin/python", "-m", "pytest", "-q", "-p", "no:cacheprovider", "-x"], cwd=wt)
                passed = re.search(r"(\d+) passed", t.stdout)
                n_passed = int(passed.group(1)) if passed else 0
                failed = "failed" in t.stdout or t.returncode != 0
                env = dict(os.environ, PYTHONPATH=os.path.join(wt, "src"))
                with_change = sh(["/venv/bin/python", demo], env=env, cwd="/tmp").returncode
                sh(["git", "-C", wt, "checkout", "--", "."])
                without = sh(["/venv/bin/python", demo], env=env, cwd="/tmp").returncode
                ok = (not failed) and n_passed == 150 and with_change == 1 and without == 0
                print(f"{d} #{k}: tests {n_passed} passed{' (FAILED)' if failed else ''}, demo exit {with_change} with / "
                      f"{without} without -> {'KEEP' if ok else 'REJECT'}")
                if not ok:
                    continue
                slug = re.sub(r"[^a-z0-9]+", "-", meta.get("summary", "change").lower())[:48].strip("-")
                sid = f"{meta['property']}-{tag}{k}-{slug}"
                out = os.path.join(VERIF, "seeded", sid)
                os.makedirs(out, exist_ok=True)
                shutil.copy(diff, os.path.join(out, "patch.diff"))
                shutil.copy(demo, os.path.join(out, "demo.py"))
                meta["confirmed"] = {
                    "how": "tools/import_seed.py in a scratch worktree of /repo HEAD: git apply; "
                           "/venv/bin/python -m pytest -q -p no:cacheprovider; PYTHONPATH=<wt>/src python demo.py with "
                           "and without the change",
                    "tests_passed": n_passed, "demo_exit_with_change": with_change,
                    "demo_exit_without_change": without,
                    "repo_head": sh(["git", "-C", "/repo", "rev-parse", "--short", "HEAD"]).stdout.strip(),
                }
                meta["origin"] = "written by a fresh sub-agent that was given only the property text and a scratch worktree"
                json.dump(meta, open(os.path.join(out, "meta.json"), "w"), indent=1)
    finally:
        sh(["git", "-C", "/repo", "worktree", "remove", "--force", wt])
        shutil.rmtree(wt, ignore_errors=True)
    return 0


if __name__ == "__main__":
    sys.exit(main(sys.argv[1:]))
