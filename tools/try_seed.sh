#!/bin/sh
# try_seed.sh <seeded-id-substring> <check> [<check>...]: apply the seeded patch to a scratch copy of /repo
# (not to /repo itself) and run the given quick checks against the copy.
sid=$(ls /verif/seeded | grep -- "$1" | head -1); shift
d=$(mktemp -d /tmp/tryseed_XXXX); git -C /repo archive HEAD | tar -x -C "$d"
(cd "$d" && patch -s -p1 < "/verif/seeded/$sid/patch.diff") || { echo "patch failed"; rm -rf "$d"; exit 2; }
for c in "$@"; do SMSTATIC_REPO="$d" SMSTATIC_EVIDENCE_DIR="$d/ev" /verif/check "$c" | grep -v "^WARNING" | cut -c1-420 | grep -E "^VIOLATION|^  |^C[0-9]|INCONCLUSIVE" | head -4; done
rm -rf "$d"
