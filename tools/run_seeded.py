#!/venv/bin/python
"""Run the registered quick checks against every seeded change under /verif/seeded/<id>/.

For each: `git -C /repo apply patch.diff`, run all 18 quick checks (in parallel, evidence
redirected to a scratch directory so the committed evidence is not disturbed), then
`git -C /repo checkout -- .`.  Writes seeded/RESULTS.md.  usage: run_seeded.py [-k substr]
[--checks C01,C02] [--demo] (also re-runs the demonstration with and without the change)"""
import argparse
import concurrent.futures as cf
import json
import os
import shutil
import subprocess
import sys
import tempfile

VERIF = os.path.dirname(os.path.dirname(os.path.abspath(__file__)))
SEEDED = os.path.join(VERIF, "seeded")
ALL = [f"C{i:02d}" for i in range(1, 19)]


def sh(cmd, **kw):
    return subprocess.run(cmd, capture_output=True, text=True, **kw)


def run_checks(checks, evdir):
    def one(c):
        env = dict(os.environ, SMSTATIC_EVIDENCE_DIR=evdir)
        r = sh([os.path.join(VERIF, "check"), c, "--tier", "quick"], env=env)
        line = ""
        for l in r.stdout.splitlines():
            if l.startswith("  ") and "rule=" in l:
                line = l.strip()[:260]
                break
        return c, r.returncode, line
    with cf.ThreadPoolExecutor(max_workers=6) as ex:
        return list(ex.map(one, checks))


def main():
    ap = argparse.ArgumentParser()
    ap.add_argument("-k", default="")
    ap.add_argument("--checks", default=",".join(ALL))
    ap.add_argument("--demo", action="store_true")
    a = ap.parse_args()
    checks = a.checks.split(",")
    if sh(["git", "-C", "/repo", "status", "--porcelain"]).stdout.strip():
        print("refusing: /repo working tree is not clean")
        return 2
    rows = []
    for sid in sorted(os.listdir(SEEDED)):
        d = os.path.join(SEEDED, sid)
        patch = os.path.join(d, "patch.diff")
        if not os.path.isfile(patch) or a.k not in sid:
            continue
        meta = json.load(open(os.path.join(d, "meta.json")))
        evdir = tempfile.mkdtemp(prefix="seedev_")
        try:
            r = sh(["git", "-C", "/repo", "apply", patch])
            if r.returncode != 0:
                rows.append((sid, meta, None, f"patch does not apply: {r.stderr[:200]}"))
                continue
            demo = ""
            if a.demo and os.path.isfile(os.path.join(d, "demo.py")):
                dr = sh(["/venv/bin/python", os.path.join(d, "demo.py")], env=dict(os.environ, PYTHONPATH="/repo/src"))
                demo = f"demo exit {dr.returncode} with change"
            res = run_checks(checks, evdir)
        finally:
            sh(["git", "-C", "/repo", "checkout", "--", "."])
            shutil.rmtree(evdir, ignore_errors=True)
        if a.demo and os.path.isfile(os.path.join(d, "demo.py")):
            dr = sh(["/venv/bin/python", os.path.join(d, "demo.py")], env=dict(os.environ, PYTHONPATH="/repo/src"))
            demo += f", {dr.returncode} without"
        rows.append((sid, meta, res, demo))
        fired = [c for c, rc, _ in res if rc == 1]
        inc = [c for c, rc, _ in res if rc == 2]
        print(f"{sid:28s} breaks {meta['property']}: caught by {fired or '-'}"
              + (f" inconclusive {inc}" if inc else "") + (f" [{demo}]" if demo else ""), flush=True)
    # results of this run are merged into seeded/results.json (keyed by seeded change), from which
    # RESULTS.md is regenerated, so a partial run (-k) does not forget the others
    store_path = os.path.join(SEEDED, "results.json")
    try:
        store = json.load(open(store_path))
    except (OSError, ValueError):
        store = {}
    head = sh(["git", "-C", VERIF, "rev-parse", "--short", "HEAD"]).stdout.strip()
    for sid, meta, res, demo in rows:
        if res is None:
            store[sid] = {"property": meta["property"], "summary": meta.get("summary", ""), "needs": meta.get("needs", ""),
                          "error": demo}
            continue
        line = next((l for c, rc, l in res if c == meta["property"] and rc == 1), "") or \
            next((l for c, rc, l in res if rc == 1), "")
        store[sid] = {"property": meta["property"], "summary": meta.get("summary", ""), "needs": meta.get("needs", ""),
                      "caught_by": [c for c, rc, _ in res if rc == 1], "inconclusive": [c for c, rc, _ in res if rc == 2],
                      "first_report": line, "verif_commit_at_run": head}
    json.dump(store, open(store_path, "w"), indent=1, sort_keys=True)
    with open(os.path.join(SEEDED, "RESULTS.md"), "w") as f:
        f.write("# Seeded changes: which quick checks fire\n\n"
                "Produced by `tools/run_seeded.py` (each patch applied to /repo, all quick checks run, patch reverted).\n"
                "A check *fires* when it exits 1 with a VIOLATION line; `?` marks exit 2 (inconclusive).\n\n")
        caught = sum(1 for v in store.values() if v.get("caught_by"))
        f.write(f"{caught} of {len(store)} seeded changes are caught by at least one check.\n\n")
        f.write("| seeded change | breaks | what it does / what it needs | caught by | first report |\n|---|---|---|---|---|\n")
        for sid in sorted(store):
            v = store[sid]
            if "error" in v:
                f.write(f"| {sid} | {v['property']} | {v['summary']} | (not run: {v['error']}) | |\n")
                continue
            marks = v["caught_by"] + [c + "?" for c in v["inconclusive"]]
            if v.get("checks_run") and len(v["checks_run"]) < len(ALL):
                marks.append("(only " + ", ".join(v["checks_run"]) + " were run, on a scratch copy)")
            f.write(f"| {sid} | {v['property']} | {(v['summary'] + ' Needs: ' + v['needs']).replace('|', '/')} | "
                    f"{', '.join(marks) if v['caught_by'] else '**missed** ' + ', '.join(marks)} | "
                    f"{v['first_report'].replace('|', '/')} |\n")
    return 0


if __name__ == "__main__":
    sys.exit(main())
