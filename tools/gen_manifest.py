#!/venv/bin/python
"""Regenerates /verif/MANIFEST.json from the table below (kept valid at all times)."""
import json
import os
import subprocess

HERE = os.path.dirname(os.path.dirname(os.path.abspath(__file__)))

ABSINT = ("static abstract interpretation of the repository's AST over an interval-region x "
          "symbolic-term domain (no execution, no solver)")

CLAIMED = {
    "C02": dict(
        technique=ABSINT + " + CFG must-pass-through",
        text="Every concrete class, and every parent class with a possibly-undefined child in every "
             "argument position, is interpreted abstractly from source for all region valuations of its "
             "variables (atoms of the partition induced by every literal the package compares against) and "
             "all parameter classes; the raise/return outcome must equal the documented domain table. "
             "Exact for definedness because every guard is region-aligned; generalises to all trees by "
             "structural induction (children are only touched through _evaluate), which the CFG rule "
             "C02.eager (every child evaluated on every non-memo path) supports.",
        note="Trusted: CPython ast, the interpreter's transfer functions, the domain table in spec.py. "
             "Not decided: behaviour when an exact intermediate overflows/underflows (excluded by the "
             "property); trees are enumerated to depth 2 and n-ary arity <= 3 (thorough: 4).",
        ref="4/C02"),
    "C01": dict(
        technique=ABSINT + " + canonical-form algebra",
        text="Expression.at is interpreted abstractly from source for every concrete class (children = "
             "variables; arities 0..5, n = 1..12, 15, 16 (thorough 1..30), bases below/at/above 1 and e), with a Constant of "
             "each value class or a child of each class its methods inspect in every position, for composite and "
             "shared-subexpression (DAG) instances, after earlier (also failing) evaluations of the same object at "
             "other points, after construction and symbolic-differentiation histories on the same objects, and "
             "through the bare-number entry point, on every sign "
             "region; the resulting closed-form term must have the same canonical form as the specification "
             "reading of the tree (the 13-row table in spec.py). Equal canonical forms prove equality of the "
             "real functions on the region; a reported violation always carries a numeric counter-instance of "
             "the extracted term pair. C01.exact: for the arithmetic constructors every rounded sub-term of the value "
             "term must be an exact intermediate of the tree (no inexact reciprocal / logarithm in between).",
        note="Decides the real-arithmetic identity the code implements and the structural part of the exactness "
             "clause (no floating-point operation other than the tree's own); does NOT decide the size of "
             "floating-point rounding, nor anything that depends on magnitudes near the ends of the double range. "
             "Trusted: ast, the "
             "interpreter, the algebra's identities (listed in algebra.py), the specification table.",
        ref="4/C01"),
    "C03": dict(
        technique=ABSINT + " + canonical-form algebra against a calculus table",
        text="The late Partial/Derivative routes (forward mode) are interpreted abstractly on every class, on "
             "chain/product/quotient compositions, repeated variables and DAGs, for every variable (occurring "
             "or not; object or name; bare number for Derivative) and sign region of the domain; the term must "
             "equal, in canonical form, the derivative of the specification reading.",
        note="Real-arithmetic identity only (no rounding, no exactness clause). Depth-2 compositions; n up to "
             "8/30. Trusted: ast, interpreter, algebra identities, spec.diff calculus table.",
        ref="4/C03"),
    "C04": dict(
        technique=ABSINT + " + canonical-form algebra against a calculus table",
        text="LocatedDifferential(e,p).component(v) and Differential(e).at(p).component(v) are interpreted "
             "abstractly (reverse accumulation through every _compute_numeric_partials and the accumulator) on "
             "every class, repeated variables and DAGs with a shared sub-expression object, for every variable "
             "and sign region; the term must equal the specification derivative in canonical form.",
        note="Same exclusions and trusted base as C03.",
        ref="4/C04"),
    "C07": dict(
        technique=ABSINT + " + CFG must-pass-through",
        text="All 14 numeric derivative routes (early and late) are interpreted abstractly on every class and "
             "on every parent class with a possibly-undefined child in each argument position (zero factors, "
             "zero numerators, base one, constant exponents, variable-free sub-trees, and variable-free undefined terms "
             "beside a variable under sums and differences, whose rules do not evaluate their children): DomainError iff the "
             "documented domain says the expression is undefined on the region. A CFG rule additionally shows "
             "that no normal exit of any forward/reverse rule skips evaluating or visiting a child.",
        note="Quick tier stays on the generic side of equalities between compound reals (measure-zero "
             "surfaces such as x*y == 1 are explored in the thorough tier only) and uses 6 representative "
             "routes for the undefined-child instances. Trusted: ast, interpreter, domain table.",
        ref="4/C07"),
    "C05": dict(
        technique=ABSINT + " + canonical-form algebra; result read back through structural fields",
        text="as_expression() of Partial, Derivative and Differential components (forward and reverse symbolic "
             "builders, early and late, followed by the library's normalisation) is interpreted abstractly; the "
             "returned expression object is read back field by field and must be well-formed, mention no new "
             "variable, be defined on every sign region where the original is, and have the canonical form of "
             "the specification derivative. Second order: Partial(Partial(e, v1).as_expression(), v2).at(p) must "
             "equal the second specification derivative (all variable pairs, every region of the domain).",
        note="Inherits the known finding F3 (even root of even power), printed as KNOWN-FINDING. Depth-2 "
             "compositions; real-arithmetic identity only. Trusted: ast, interpreter, algebra, calculus table.",
        ref="4/C05"),
    "C06": dict(
        technique=ABSINT + " with all routes cross-checked + CFG dominance",
        text="All 14 numeric routes are interpreted on every class/composition/undefined-child instance and "
             "region and must all raise DomainError or all return the same real function; early/late "
             "as_expression() results and Differential(e).component(v) == Partial(e, v), Differential(e).at(p) == "
             "LocatedDifferential(e, p) are decided with the library's own == (interpreted); a CFG rule shows "
             "every evaluation of a stored symbolic partial is dominated by evaluating the original at the same "
             "point.",
        note="Known findings F3 and F5 (early Differential stores reverse-builder expressions) are listed in "
             "known_findings.json. 'Same number up to rounding' is decided as 'same real function'.",
        ref="4/C06"),
    "C08": dict(
        technique=ABSINT + " of the rewriter, one step at a time + canonical-form algebra per step",
        text="The driver is interpreted exactly as _fully_reduce drives it on every enumerated rule input (each "
             "class x the child classes its reducers inspect, discovered from the source, x parameter "
             "combinations x arities/positions up to 3, sampled arities 4-5, depth-3 unary chains; thorough: 400 random "
             "trees with identity-based generalisation of the rewritten sub-tree), on variable-free sub-trees for "
             "constant folding, through the normal-form pass and the public _normalize pipeline; every "
             "intermediate expression is read back and each step, attributed to the reducer that fired, must be "
             "defined on every sign region where its input is and have the same canonical value. Every listed "
             "reducer must fire on some input (otherwise inconclusive).",
        note="Known finding F3 (NthRoot._reduce_nth_root_of_mth_power, m and n even, u<0). Variables stand for "
             "arbitrary sub-expressions (rules inspect children only one level deep); depth 2, arity <= 3.",
        ref="4/C08"),
    "C11": dict(
        technique=ABSINT + " of the rewriter + termination certificate (symbol-count measures, recursive path order)",
        text="On every enumerated rule input and on structured larger families the interpreted rewrite sequence "
             "must not revisit a form, inputs of <= 20 nodes must be fully reduced within the library's own "
             "REDUCTION_STEPS_BOUND (driven step by step to that bound) and must not grow beyond nesting depth 60, every "
             "reducer called directly on every node of a fresh copy of the final form must decline (rule-free, "
             "independent of the driver's flags), and every observed step must be strictly decreasing in a fixed "
             "well-founded order (mu1, mu2, then RPO; no variable duplicated), which rules out infinite chains of "
             "the observed rule instances for arbitrary sub-expressions in the variable positions.",
        note="The quadratic step bound is observed (max steps/size^2 reported in the evidence), not proved. "
             "A step the certificate cannot orient is inconclusive, not a violation.",
        ref="4/C11"),
    "C12": dict(
        technique=ABSINT.replace(" over an interval-region x symbolic-term domain", "") + " of __eq__/__hash__ over an object pool",
        text="==, != and hash() are interpreted from source on all ordered pairs of a pool of expressions (all "
             "constructors; pairs differing in exactly one parameter, leaf, argument position or arity; int/float "
             "spellings), points and derivative objects (early/late), against foreign objects, and on copies that "
             "were evaluated/differentiated/simplified; the result must equal the checker's own structural equality, "
             "be symmetric, never raise, != must negate ==, equal objects must hash equal (abstract hash with "
             "Python's numeric contract).",
        note="Bounded pool (about 110 objects, 12k pairs); transitivity follows from coincidence with a structural "
             "equivalence on every compared pair. NaN parameters excluded.",
        ref="4/C12"),
    "C13": dict(
        technique=ABSINT.replace(" over an interval-region x symbolic-term domain", "") + " of __repr__/__str__ + parse-back of the printed constructor call",
        text="repr() and str() of a pool of expressions (all constructors and parameter kinds), points and all "
             "derivative objects are computed by interpreting the source (following Python's formatting protocol: an "
             "f-string without conversion calls the child's __format__), every literal of the pool also being placed "
             "as a direct child of every kind of parent and inside derivative objects; the text is parsed as a Python expression, "
             "read as a constructor call with the public signatures and must denote exactly the original object; "
             "collisions between unequal expressions are checked directly.",
        note="The float -> text -> float round trip is Python's float.__repr__ and is taken as given.",
        ref="4/C13"),
    "C14": dict(
        technique=ABSINT.replace(" over an interval-region x symbolic-term domain", "") + " over coordinate subsets and names",
        text="Evaluation and five derivative routes are interpreted on expressions whose variables are fully "
             "supplied (with extra coordinates; differentiation variable absent when it does not occur): never "
             "CoordinateMissing; on every proper subset of the variables (evaluation) and at every point lacking one occurring variable (every derivative route, whichever the differentiation variable): never a number; bare numbers and Derivative "
             "accepted exactly for <= 1 variable; recorded variable sets equal the mentioned variables; legal names "
             "that collide with the library's own parameter names are used as coordinate names through every entry.",
        note="Bounded set of expressions and names. Coordinates valued None are outside 'finite points'.",
        ref="4/C14"),
    "C15": dict(
        technique=ABSINT.replace(" over an interval-region x symbolic-term domain", "") + " of the operator dunders",
        text="-a, a+b, a-b, a*b, a/b, a**b, a**k are interpreted for operands of many shapes (including ones a "
             "simplifier would touch) and all exponent classes; the object built is read back field by field and must be "
             "exactly the named constructor applied to the operands in order; non-expression operands on either side "
             "and exponents that are zero, negative, non-integral, infinite or non-numeric must raise.",
        note="Bounded operand pool; exponent classes exhaustive for the guards in the source.",
        ref="4/C15"),
    "C16": dict(
        technique=ABSINT.replace(" over an interval-region x symbolic-term domain", "") + " of the constructors over argument classes",
        text="Every constructor is interpreted on representatives of every argument class (operands of foreign "
             "types in every position; n over ints/integral floats/non-integral floats/strings/None/inf of any sign; "
             "bases of any sign incl. 0 and 1; names over word/non-word strings); accept/reject must be the "
             "documented one and .n/.base/.name/.value must report the argument back (n as the integer).",
        note="'Rejected' means any exception, as the property states. NaN/inf bases not examined.",
        ref="4/C16"),
    "C09": dict(
        technique="static abstract interpretation of operation histories + CFG dominance / must-pass-through rules",
        text="Histories (length 1-5; exhaustive over the stale-memo shapes, sampled beyond) of evaluation, late/early "
             "partials on kept objects, located/early differentials, as_expression (switching a late object to its "
             "symbolic path), normalisation and failing calls are interpreted over a pool of 15 expressions that share "
             "sub-expression objects at 6 concrete points (incl. failing ones, a missing coordinate, and both at once); the final "
             "operation must give the answer of a fresh pool (numbers up to rounding, because a late object "
             "legitimately switches route). CFG rules carry this to any history: every root traversal call is dominated by a cache reset "
             "on the same receiver; each reset clears every memo _evaluate writes and recurses into every child on all "
             "paths; every field an expression class writes outside constructor, reset and rewriting protocol is assigned "
             "by its reset chain; no module keeps mutable state that functions touch.",
        note="Sampling uses VERIF_SEED. The give-up exit of _fully_reduce (C11 budget) is a stated caveat. Defect F6 "
             "(history dependence through a missing coordinate) was found here and repaired in /repo (7056138).",
        ref="4/C09"),
    "C10": dict(
        technique="static write-effect / ownership analysis + abstract interpretation of histories with structural snapshots",
        text="Write-effect analysis of all functions: fields that define what an object denotes (children, variable set, "
             "and every field its ==/hash/printing reads -- derived from the source) are assigned only in constructors; "
             "every in-place mutation targets a container created in the same function (exception: the accumulators' own "
             "scratch dictionaries). Histories over a shared pool are interpreted and after each every pooled object and "
             "every previously returned expression is read back field by field and must be unchanged (structure, variable "
             "sets, coordinates and their order).",
        note="Sound for the Python subset used (setattr/delattr flagged). Memo fields may be written anywhere; C12/C13 "
             "show they do not influence ==, hash, repr.",
        ref="4/C10"),
    "C17": dict(
        technique="static abstract interpretation with modelled failure modes + call-graph reachability of raise statements",
        text="Evaluation, all 14 numeric derivative routes and the 6 as_expression routes are interpreted on every class, "
             "parent/undefined-child combination, region (inside/outside/on the boundary of the domain) and with "
             "coordinates missing; /, **, math.log, math.sqrt, dict lookups, unpacking and calls on Optional values are "
             "modelled with their own failure modes, so an escaping ValueError/ZeroDivisionError/TypeError/KeyError/"
             "AttributeError or a complex/non-numeric result is observed as such. A call-graph rule shows every raise "
             "reachable from the public entry points is a library error, argument validation, the documented arity "
             "exception or an overridden abstract stub.",
        note="Overflow/underflow (OverflowError, inf, nan) is excluded by the property and not analysed.",
        ref="4/C17"),
    "C18": dict(
        technique="static order-taint (dataflow) analysis + abstract interpretation under permuted set/dict orders",
        text="Kinds 'set' and 'dict ordered by a set' are inferred for locals, parameters, fields and returns to a fixed "
             "point (context-sensitive return summaries); every iteration site over such a value must be order-free "
             "(keyed stores, set/dict building, order-free consumers); ordered lists, argument lists, joins, "
             "accumulation and positional choice are violations; hash()/id() only inside __hash__; no clock/random/"
             "environment imports. A battery of four-variable expressions is additionally interpreted under four "
             "set-iteration orders x three coordinate orders: all numeric and symbolic results, and the outcomes of ==, != and hash agreement against a fixed spelling of the same point, must be identical.",
        note="Bit-for-bit determinism of CPython floats/libm on one machine is assumed. Point.__repr__ echoes the "
             "coordinate order as written (C13) and is exempt.",
        ref="4/C18"),
}

NOT_APPLICABLE = {
}

PENDING_REASON = ("no check registered yet in this revision (engine under construction); not claimed "
                  "rather than approximated with a runtime test")


def main():
    props = [json.loads(l)["id"] for l in open(os.path.join(HERE, "properties.jsonl"))]
    try:
        commits = subprocess.run(["git", "-C", "/repo", "log", "--format=%h %s"], capture_output=True,
                                 text=True).stdout.splitlines()
    except OSError:
        commits = []
    fix_commits = [c for c in commits if c.split(" ", 1)[1].startswith("fix:")]
    checks = []
    for pid in props:
        if pid not in CLAIMED:
            continue
        c = CLAIMED[pid]
        checks.append({
            "property_id": pid,
            "quick_cmd": f"./check {pid} --tier quick",
            "thorough_cmd": f"./check {pid} --tier thorough",
            "evidence_file": f"evidence/{pid}.json",
            "replay_cmd_template": f"./check {pid} --replay {{path}}",
            "engine": "smstatic",
            "level_claimed": {"category": "other", "text": c["text"], "design_ref": c["ref"]},
            "level_note": c["note"],
            "technique": c["technique"],
        })
    na = []
    for pid in props:
        if pid in CLAIMED:
            continue
        na.append({"property_id": pid, "reason": NOT_APPLICABLE.get(pid, PENDING_REASON)})
    manifest = {
        "version": 1,
        "setup_cmd": "/venv/bin/python -m compileall -q smstatic || python3 -m compileall -q smstatic",
        "hooks": {
            "guard": "SMOOTHMATH_VERIF",
            "enable": "none needed: the checks read /repo/src/smoothmath as source text (ast); no hook or "
                      "instrumentation is added to the repository",
            "baseline_off_cmd": "cd /repo && /venv/bin/python -m pytest -ra -q -p no:cacheprovider --timeout=900 "
                                "--continue-on-collection-errors",
            "source_commits": [],
            "add_only": True,
        },
        "engines": [{
            "name": "smstatic",
            "path": "smstatic/",
            "serves_properties": sorted(CLAIMED),
            "kind_free_text": "repository-specific static analyser: program model (alias/class tables), "
                              "statement CFG with dominators, abstract interpreter over interval regions "
                              "and symbolic terms, canonical-form algebra, effect/field/taint analyses",
        }],
        "checks": checks,
        "not_applicable": na,
        "notes": "Static analysis only (see DESIGN.md). exit 0 = all obligations discharged or listed in "
                 "known_findings.json; exit 1 = definite violation with a VIOLATION line; exit 2 = analysis "
                 "inconclusive/error (never used for a violated property). Repairs of genuine defects in "
                 "/repo: " + "; ".join(fix_commits),
    }
    with open(os.path.join(HERE, "MANIFEST.json"), "w") as f:
        json.dump(manifest, f, indent=1)
    print(f"MANIFEST.json: {len(checks)} checks, {len(na)} not_applicable")


if __name__ == "__main__":
    main()
