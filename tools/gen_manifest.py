#!/venv/bin/python
"""Regenerates /verif/MANIFEST.json from the table below (kept valid at all times)."""
import json
import os
import subprocess

HERE = os.path.dirname(os.path.dirname(os.path.abspath(__file__)))

ABSINT = ("static abstract interpretation of the repository's AST over an interval-region x "
          "symbolic-term domain (no execution, no solver)")

CLAIMED = {
    "C02": dict(
        technique=ABSINT + " + CFG must-pass-through",
        text="Every concrete class, and every parent class with a possibly-undefined child in every "
             "argument position, is interpreted abstractly from source for all region valuations of its "
             "variables (atoms of the partition induced by every literal the package compares against) and "
             "all parameter classes; the raise/return outcome must equal the documented domain table. "
             "Exact for definedness because every guard is region-aligned; generalises to all trees by "
             "structural induction (children are only touched through _evaluate), which the CFG rule "
             "C02.eager (every child evaluated on every non-memo path) supports.",
        note="Trusted: CPython ast, the interpreter's transfer functions, the domain table in spec.py. "
             "Not decided: behaviour when an exact intermediate overflows/underflows (excluded by the "
             "property); trees are enumerated to depth 2 and n-ary arity <= 3 (thorough: 4).",
        ref="4/C02"),
}

NOT_APPLICABLE = {
}

PENDING_REASON = ("no check registered yet in this revision (engine under construction); not claimed "
                  "rather than approximated with a runtime test")


def main():
    props = [json.loads(l)["id"] for l in open(os.path.join(HERE, "properties.jsonl"))]
    try:
        commits = subprocess.run(["git", "-C", "/repo", "log", "--format=%h %s"], capture_output=True,
                                 text=True).stdout.splitlines()
    except OSError:
        commits = []
    fix_commits = [c for c in commits if c.split(" ", 1)[1].startswith("fix:")]
    checks = []
    for pid in props:
        if pid not in CLAIMED:
            continue
        c = CLAIMED[pid]
        checks.append({
            "property_id": pid,
            "quick_cmd": f"./check {pid} --tier quick",
            "thorough_cmd": f"./check {pid} --tier thorough",
            "evidence_file": f"evidence/{pid}.json",
            "replay_cmd_template": f"./check {pid} --replay {{path}}",
            "engine": "smstatic",
            "level_claimed": {"category": "other", "text": c["text"], "design_ref": c["ref"]},
            "level_note": c["note"],
            "technique": c["technique"],
        })
    na = []
    for pid in props:
        if pid in CLAIMED:
            continue
        na.append({"property_id": pid, "reason": NOT_APPLICABLE.get(pid, PENDING_REASON)})
    manifest = {
        "version": 1,
        "setup_cmd": "/venv/bin/python -m compileall -q smstatic || python3 -m compileall -q smstatic",
        "hooks": {
            "guard": "SMOOTHMATH_VERIF",
            "enable": "none needed: the checks read /repo/src/smoothmath as source text (ast); no hook or "
                      "instrumentation is added to the repository",
            "baseline_off_cmd": "cd /repo && /venv/bin/python -m pytest -ra -q -p no:cacheprovider --timeout=900 "
                                "--continue-on-collection-errors",
            "source_commits": [],
            "add_only": True,
        },
        "engines": [{
            "name": "smstatic",
            "path": "smstatic/",
            "serves_properties": sorted(CLAIMED),
            "kind_free_text": "repository-specific static analyser: program model (alias/class tables), "
                              "statement CFG with dominators, abstract interpreter over interval regions "
                              "and symbolic terms, canonical-form algebra, effect/field/taint analyses",
        }],
        "checks": checks,
        "not_applicable": na,
        "notes": "Static analysis only (see DESIGN.md). exit 0 = all obligations discharged or listed in "
                 "known_findings.json; exit 1 = definite violation with a VIOLATION line; exit 2 = analysis "
                 "inconclusive/error (never used for a violated property). Repairs of genuine defects in "
                 "/repo: " + "; ".join(fix_commits),
    }
    with open(os.path.join(HERE, "MANIFEST.json"), "w") as f:
        json.dump(manifest, f, indent=1)
    print(f"MANIFEST.json: {len(checks)} checks, {len(na)} not_applicable")


if __name__ == "__main__":
    main()
