"""Shared engine for C01/C02/C17(eval): abstractly interpret `Expression.at` on enumerated
instance trees over every region valuation of their variables and compare the outcome
(raise class / value term) with the specification (spec.py + ALGEBRA)."""
from __future__ import annotations
import math
import multiprocessing as mp
import os

from .model import load_model, AnalysisError
from .harness import (build, cref, make_point, exc_name, exc_origin, run_paths, partition, valuations,
                      describe_val, leaf_value)
from .values import SymNum, ComplexVal, Obj
from .regions import IV, samples_in
from . import spec
from .algebra import compare_terms, has_head

E = math.e


def n_class(n) -> str:
    n = int(n)
    if n <= 3:
        return f"n={n}"
    return "n even>=4" if n % 2 == 0 else "n odd>=5"


def base_class(b) -> str:
    b = float(b)
    if b == E:
        return "base=e"
    if b == 1:
        return "base=1"
    return "base<1" if b < 1 else "base>1"


def param_class(tree) -> str:
    k = tree[0]
    if k in ("NthPower", "NthRoot"):
        return n_class(tree[2])
    if k in ("Exponential", "Logarithm"):
        return base_class(tree[2])
    if k in spec.NARY:
        return f"arity={len(tree[1])}"
    return ""


def region_class(val: dict) -> str:
    def one(iv):
        if iv.is_point():
            return f"={iv.lo:g}"
        s = iv.sign()
        return {"+": ">0", "-": "<0", None: "?"}[s]
    return ",".join(f"{k}{one(v)}" for k, v in sorted(val.items()))


def depth1_instances(model, tier: str):
    """(tree, label) for every concrete expression class known to the specification."""
    names = [c.name for c in model.concrete_expression_classes()]
    out = []
    ns = (list(range(1, 13)) + [15, 16]) if tier == "quick" else list(range(1, 31))
    exp_bases = [0.5, 1, 2, E, 3.0, 10]
    log_bases = [0.5, 2, E, 3.0, 10]
    x, y, z, w = (("Variable", v) for v in ("x", "y", "z", "w"))
    for k in names:
        if k == "Variable":
            out.append((x, k))
        elif k == "Constant":
            for v in (0, 1, -1, 2, 0.5, 2.0, -3, 1e-3):
                out.append((("Constant", v), k))
        elif k in spec.UNARY:
            out.append(((k, x), k))
        elif k in ("NthPower", "NthRoot"):
            for n in ns + [2.0, 3.0, 4.0, 7.0]:
                out.append(((k, x, n), k))
        elif k == "Exponential":
            for b in exp_bases:
                out.append(((k, x, b), k))
        elif k == "Logarithm":
            for b in log_bases:
                out.append(((k, x, b), k))
        elif k in spec.BINARY:
            out.append(((k, x, y), k))
        elif k in spec.NARY:
            kids = [x, y, z, w]
            for ar in range(0, 4 if tier == "quick" else 5):
                out.append(((k, kids[:ar]), k))
    return out, [k for k in names if k not in spec.ALL_CLASSES]


CONSTANT_VALUES = (-2, -1, -0.5, 0, 0.5, 1, 2, 2.0, 2.5, 3)


def constant_child_instances(model, tier: str):
    """Binary and n-ary classes with a Constant in each argument position, over the value
    classes the package's guards distinguish (negative / -1 / 0 / fractional / 1 / integral >= 2 in
    both spellings / non-integral > 2)."""
    names = [c.name for c in model.concrete_expression_classes()]
    x = ("Variable", "x")
    out = []
    for k in names:
        for v in CONSTANT_VALUES:
            c = ("Constant", v)
            if k in spec.BINARY:
                out.append(((k, x, c), f"{k}<_,Constant>"))
                out.append(((k, c, x), f"{k}<Constant,_>"))
            elif k in spec.NARY:
                out.append(((k, [x, c]), f"{k}<_,Constant>"))
                if tier != "quick":
                    out.append(((k, [c, x, x]), f"{k}<Constant,_,_>"))
    return out


def inspected_child_instances(model, tier: str):
    """Every unary/binary class with a child drawn from the classes that its own methods inspect
    (isinstance / *_of_given_type anywhere in the class, discovered from the source), with the
    parameter combinations, and n-ary nodes of arity 2 -- the shapes on which a special case keyed
    on the class of a child can act.  Also the same *object* used as both operands."""
    from .simpengine import mentioned_classes, child_shapes, Namer, deep_pattern_sites, deep_child_shapes
    names = [c.name for c in model.concrete_expression_classes() if c.name in spec.ALL_CLASSES]
    out = []
    ns = (2, 3) if tier == "quick" else (1, 2, 3, 4, 6)
    deep_owners = {fi.qualname.split(".")[0] for (fi, _ln, _p) in deep_pattern_sites(model)}
    for k in names:
        if k in spec.LEAF:
            continue
        nm = Namer()
        ment = mentioned_classes(model, k)
        for ck in ment:
            if ck in spec.LEAF:
                continue
            shapes = child_shapes(ck, nm, "quick", True)
            if k in deep_owners:
                # a method of this class inspects grandchildren: children whose own children are drawn
                # from the inspected classes
                shapes = shapes + deep_child_shapes(model, ck, ["Variable"] + ment, nm, "quick")
            for ch in shapes:
                if k in spec.UNARY:
                    out.append(((k, ch), f"{k}<{ck}>"))
                elif k in ("NthPower", "NthRoot"):
                    for n in ns + ((ch[2],) if ck in ("NthPower", "NthRoot") and ch[2] not in ns else ()):
                        if ck in ("NthPower", "NthRoot"):
                            par = lambda v: "even" if int(v) % 2 == 0 else "odd"
                            out.append(((k, ch, n), f"{k}[{par(n)}]({ck}[{par(ch[2])}])"))
                        else:
                            out.append(((k, ch, n), f"{k}<{ck}>"))
                elif k == "Exponential":
                    for b in (2, E):
                        out.append(((k, ch, b), f"{k}<{ck}>"))
                elif k == "Logarithm":
                    for b in (2, E):
                        out.append(((k, ch, b), f"{k}<{ck}>"))
                elif k in spec.BINARY:
                    out.append(((k, ch, nm.var()), f"{k}<{ck},_>"))
                    out.append(((k, nm.var(), ch), f"{k}<_,{ck}>"))
                elif k in spec.NARY:
                    out.append(((k, [ch, nm.var()]), f"{k}<{ck},_>"))
    # n-ary nodes with three and four children of one inspected class (e.g. several negated factors)
    for k in names:
        if k in spec.NARY:
            x, y = ("Variable", "x"), ("Variable", "y")
            for ck in mentioned_classes(model, k):
                if ck in spec.UNARY:
                    out.append(((k, [(ck, x), (ck, y), (ck, x)]), f"{k}<3x{ck}>"))
                    out.append(((k, [(ck, x), (ck, y), (ck, y), (ck, x)]), f"{k}<4x{ck}>"))
                    out.append(((k, [(ck, x), y, (ck, y), (ck, x)]), f"{k}<3x{ck},_>"))
                elif ck in ("NthPower", "NthRoot"):
                    out.append(((k, [(ck, x, 2), (ck, y, 2), (ck, x, 3)]), f"{k}<3x{ck}>"))
                elif ck in ("Exponential", "Logarithm"):
                    out.append(((k, [(ck, x, 2), (ck, y, 2), (ck, x, E)]), f"{k}<3x{ck}>"))
    # the same object in two argument positions
    for kind, _nh in PARTIAL_CHILD:
        pc = partial_child(kind, ["p", "q"])
        for k in names:
            if k in spec.BINARY:
                out.append(((k, pc, pc), f"{k}<same {kind}>"))
            elif k in spec.NARY:
                out.append(((k, [pc, pc]), f"{k}<same {kind}>"))
    return out


def wide_nary_instances(model, tier: str):
    """n-ary nodes of arity 4 and 5 over variables (and with one zero constant)"""
    names = [c.name for c in model.concrete_expression_classes()]
    vs = [("Variable", n) for n in ("a", "b", "c", "d", "e")]
    out = []
    for k in names:
        if k in spec.NARY:
            for ar in (4, 5):
                out.append(((k, vs[:ar]), f"{k}(arity {ar})"))
            out.append(((k, vs[:3] + [("Constant", 0)]), f"{k}(arity 4 with 0)"))
            out.append(((k, [("Constant", 0)] + vs[:4]), f"{k}(arity 5 with 0)"))
    return out


PARTIAL_CHILD = [("Reciprocal", 1), ("Logarithm", 1), ("NthRoot", 1), ("Divide", 2), ("Power", 2)]


def partial_child(kind: str, names):
    if kind == "Reciprocal":
        return ("Reciprocal", ("Variable", names[0]))
    if kind == "Logarithm":
        return ("Logarithm", ("Variable", names[0]), E)
    if kind == "NthRoot":
        return ("NthRoot", ("Variable", names[0]), 2)
    if kind == "Divide":
        return ("Divide", ("Variable", names[0]), ("Variable", names[1]))
    if kind == "Power":
        return ("Power", ("Variable", names[0]), ("Variable", names[1]))
    raise ValueError(kind)


def depth2_instances(model, tier: str):
    """Every parent class with a possibly-undefined child in every argument position, the
    other positions being plain variables (so zero factors, base one, ... are reached)."""
    names = [c.name for c in model.concrete_expression_classes()]
    out = []
    kinds = PARTIAL_CHILD if tier != "quick" else [("Reciprocal", 1), ("Logarithm", 1), ("Power", 2)]
    for k in names:
        if k not in spec.ALL_CLASSES or k in spec.LEAF:
            continue
        for kind, nh in kinds:
            pc = partial_child(kind, ["p", "q"])
            o = ("Variable", "o")
            if k in spec.UNARY:
                out.append(((k, pc), f"{k}<{kind}>"))
            elif k in ("NthPower", "NthRoot"):
                for n in ((1, 2, 3) if tier == "quick" else (1, 2, 3, 4, 5)):
                    out.append(((k, pc, n), f"{k}<{kind}>"))
            elif k == "Exponential":
                for b in (1, 2):
                    out.append(((k, pc, b), f"{k}<{kind}>"))
            elif k == "Logarithm":
                out.append(((k, pc, 2), f"{k}<{kind}>"))
            elif k in spec.BINARY:
                out.append(((k, pc, o), f"{k}<{kind},_>"))
                out.append(((k, o, pc), f"{k}<_,{kind}>"))
                if k == "Power":
                    out.append(((k, ("Constant", 1), pc), f"{k}<1,{kind}>"))
                    out.append(((k, ("Constant", 1.0), pc), f"{k}<1.0,{kind}>"))
                if k == "Divide":
                    out.append(((k, ("Constant", 0), pc), f"{k}<0,{kind}>"))
            elif k in spec.NARY:
                out.append(((k, [pc]), f"{k}<{kind}>"))
                out.append(((k, [pc, o]), f"{k}<{kind},_>"))
                out.append(((k, [o, pc]), f"{k}<_,{kind}>"))
                out.append(((k, [("Constant", 0), pc]), f"{k}<0,{kind}>"))
                out.append(((k, [pc, ("Constant", 0)]), f"{k}<{kind},0>"))
    return out


def region_env(val: dict) -> dict:
    return {k: samples_in(iv) for k, iv in val.items() if not iv.is_point()}


def eval_case(args):
    """Worker: returns a list of result dicts for one (tree, val) case."""
    tree, val, api = args
    model = load_model()
    try:
        exp = spec.eval_iv(tree, val)
    except spec.Unknown as e:
        return [{"status": "skip", "reason": str(e)}]

    def thunk(it):
        e = build(it, tree, {})
        p = make_point(it, val)
        if api == "at-after-other":
            # the same object was evaluated before at another point (and possibly failed there)
            from .interp import InterpRaise as _IR
            far = IV(1.0, math.inf, True, True)
            near = IV(-math.inf, -1.0, True, True)
            other = {k: (near if iv == far else far) for k, iv in val.items()}
            for prev in (other, {k: IV.point(0.0) for k in val}):
                try:
                    it.call(it.getattr(e, "at"), [make_point(it, prev)], {})
                except _IR:
                    pass
            return it.call(it.getattr(e, "at"), [p], {})
        if api == "at-after-symbolic":
            # the expression was differentiated symbolically / simplified before (its nodes are embedded by
            # reference in what those operations build); evaluating it afterwards must be unaffected
            from .interp import InterpRaise as _IR
            share = {}
            e = build(it, tree, share)
            names_ = list(val)
            for op in (lambda: it.call(it.getattr(it.call(cref(model, "Partial"), [e, names_[0]], {}), "as_expression"), [], {}),
                       lambda: it.call(cref(model, "Differential"), [e], {"compute_early": True}),
                       lambda: it.call(it.getattr(e, "_normalize"), [], {}),
                       lambda: it.call(it.getattr(it.call(cref(model, "Partial"), [e, names_[-1]], {}), "as_expression"), [], {})):
                try:
                    op()
                except _IR:
                    pass
            return it.call(it.getattr(e, "at"), [p], {})
        if api == "number-after-reuse":
            # every node of the expression (the variable object included) first becomes an operand of
            # other, larger expressions that mention another variable; then the expression is used alone
            share = {}
            e = build(it, tree, share)
            other = build(it, ("Variable", "another_variable"), {})
            for node in list(share.values()):
                for kname in spec.BINARY + spec.NARY:
                    if kname in model.classes:
                        it.call(cref(model, kname), [node, other], {})
                        it.call(cref(model, kname), [other, node], {})
            (name,) = list(val) or ["x"]
            return it.call(it.getattr(e, "at"), [leaf_value(name, val[name])], {})
        if api == "number":
            (name,) = list(val) or ["x"]
            return it.call(it.getattr(e, "at"), [leaf_value(name, val[name])], {})
        return it.call(it.getattr(e, "at"), [p], {})

    results = []
    for o in run_paths(model, thunk, max_paths=16):
        r = {"tree": spec.show(tree), "val": describe_val(val), "imprecise": o["imprecise"],
             "forks": [f"{d}={b}" for d, b in o["forks"]]}
        if o["kind"] in ("unsupported", "limit"):
            r.update(status="unsupported", reason=o["msg"])
        elif o["kind"] == "raise" and exc_name(o["exc"]) == "OverflowError":
            r.update(status="skip", reason="an exact intermediate leaves the double range (excluded by the property)")
        elif o["kind"] == "return" and isinstance(o["value"], SymNum) and o["value"].conc is not None \
                and isinstance(o["value"].conc, float) and (math.isinf(o["value"].conc) or math.isnan(o["value"].conc)):
            r.update(status="skip", reason="overflow to inf/nan (excluded by the property)")
        elif o["kind"] == "raise":
            nm = exc_name(o["exc"])
            r.update(got="raise", exc=nm, origin=exc_origin(o["exc"]))
            if exp[0] == "undef":
                r["status"] = "ok" if nm == "DomainError" else "wrong-exception"
                r["expected"] = f"DomainError ({exp[1]}: {exp[2]})"
            else:
                r["status"] = "spurious-raise"
                r["expected"] = "a real number"
        else:
            v = o["value"]
            if exp[0] == "undef":
                r.update(status="missing-raise", got=repr(v), expected=f"DomainError ({exp[1]}: {exp[2]})")
            elif isinstance(v, ComplexVal):
                r.update(status="complex", got="complex", expected="a real number")
            elif isinstance(v, bool) or not isinstance(v, (int, SymNum)):
                r.update(status="not-a-number", got=repr(v), expected="a real number")
            else:
                got_term = SymNum.of(v).term
                want = spec.value_term(tree, spec.leaf_terms(val))
                signs = spec.signs_from_valuation({k: iv for k, iv in val.items() if not iv.is_point()})
                verdict, wit = compare_terms(got_term, want, signs, region_env=region_env(val))
                r["got"] = repr(v)
                if has_head(got_term, "round") and verdict != "equal":
                    # the value returned on this path is a rounded (piecewise constant) function of the
                    # inputs: never the real-arithmetic value on a whole region
                    r.update(status="value-differs", imprecise=False,
                             witness=wit if verdict == "differ" else {"at": "any non-integer point", "values": [0.0, 0.0]},
                             quantised=True)
                elif verdict == "equal":
                    r["status"] = "ok"
                elif verdict == "differ":
                    r.update(status="value-differs", witness=wit)
                elif verdict in ("undef1", "undef2", "both-undef"):
                    r.update(status="value-unknown", reason=f"algebra: {verdict} {wit}")
                else:
                    r.update(status="value-unknown", reason=str(wit))
        results.append(r)
    return results


_POOL = None


def pmap(fn, items, chunksize=8):
    items = list(items)
    if len(items) < 24 or os.environ.get("SMSTATIC_SERIAL"):
        return [fn(i) for i in items]
    procs = min(16, os.cpu_count() or 2)
    ctx = mp.get_context("fork")
    with ctx.Pool(procs) as pool:
        return pool.map(fn, items, chunksize=chunksize)
