"""Histories of API operations over pools of objects that share sub-expression objects
(C09: answers do not depend on history; C10: operations never change their operands).
All points are concrete, so the interpreter reproduces the library's float arithmetic
exactly and results of a history can be compared bit for bit with a fresh pool."""
from __future__ import annotations
import math
import random

from .model import load_model
from .harness import build, cref, run_paths, exc_name
from .interp import InterpRaise, Unsupported
from .interp_ops import Interpreter
from .objengine import make_point_concrete
from .derivengine import obj_to_tree
from .values import SymNum, Obj
from . import spec

E = math.e
X, Y = ("Variable", "x"), ("Variable", "y")


def pool_trees():
    """name -> tree; identical tuple objects are built once and shared (DAG)."""
    s = ("Multiply", [X, Y])                       # shared by e1, e2, e3
    t = ("Add", [X, ("Constant", 1)])              # shared by e2, e4
    # variable-free, undefined as written, but with rewrite rules that apply to them: shared by e8, e9
    u = ("NthPower", ("NthRoot", ("Constant", -4), 2), 2)
    w = ("Multiply", [("Constant", 0), ("Logarithm", ("Constant", -1), E)])
    return {
        "e1": ("Add", [s, ("NthPower", s, 2)]),
        "e2": ("Divide", s, t),
        "e3": ("Logarithm", s, E),
        "e4": ("Power", t, ("Sine", Y)),
        "e5": ("Minus", ("NthRoot", ("NthPower", X, 3), 3), ("Reciprocal", ("Negation", Y))),
        "e6": ("Add", [X, ("Multiply", [Y, ("Reciprocal", ("Constant", 0))])]),       # variable-free undefined part
        "e7": ("Multiply", [s, ("Logarithm", ("Constant", 8), 2), ("Power", ("Constant", 1), t)]),
        "e8": ("Multiply", [X, u, ("NthPower", Y, 2)]),
        "e9": ("Add", [("Multiply", [Y, u]), w, ("Reciprocal", ("Reciprocal", ("Constant", 0)))]),
        # the rarer parameter classes: odd/even n >= 4 (of a product that is negative at p2), bases below and at one
        "e10": ("Add", [("NthRoot", s, 5), ("NthRoot", ("Add", [("NthPower", X, 2), ("Constant", 1)]), 4), ("Exponential", s, 0.5),
                        ("Exponential", Y, 1), ("NthPower", s, 7)]),
        # a variable that occurs only linearly (its value never enters any partial), at p4 it is missing
        "e12": ("Add", [("Multiply", [("Constant", 2), X]), Y, ("Constant", 3)]),
        # a Power with variable base and exponent below parents that evaluate it before differentiating it
        "e13": ("Multiply", [("Constant", 2), ("Sine", ("Power", ("Add", [X, ("Constant", 3)]), Y))]),
        # operands that fail in different ways at p6 (numerator: DomainError, denominator: CoordinateMissing)
        "e15": ("Divide", ("Logarithm", X, E), ("Add", [Y, ("Constant", 2)])),
        "e11": ("Multiply", [("NthRoot", ("Negation", t), 7), ("Logarithm", ("NthPower", Y, 2), 0.5), ("NthRoot", X, 9)]),
    }


POINTS = {
    "p1": {"x": 2.0, "y": 3.0},
    "p2": {"x": -1.5, "y": 0.5},      # s < 0: e3 undefined; t < 0: e4 undefined
    "p3": {"x": 0.0, "y": 1.0},       # s == 0: memo value is 0
    "p4": {"x": 2.0},                 # y missing
    "p5": {"y": 3.0, "x": 2.0, "unused": 9},
    "p6": {"x": -1.5},                # y missing AND x outside the domain of e3/e15: two different failures at once
}

KINDS = ["at", "partial", "partial-early", "located", "differential-early", "as_expression", "normalize",
         "derivative-objects"]


def all_actions():
    acts = []
    for e in pool_trees():
        for p in POINTS:
            acts.append(("at", e, p, None))
            for v in ("x", "y"):
                acts.append(("partial", e, p, v))
                acts.append(("located", e, p, v))
            acts.append(("partial", e, p, "absent"))
            acts.append(("partial-early", e, p, "x"))
            acts.append(("differential-early", e, p, "y"))
        acts.append(("as_expression", e, None, "x"))
        acts.append(("as_expression", e, None, "absent"))
        acts.append(("as_expression-reverse", e, None, "y"))
        acts.append(("normalize", e, None, None))
    return acts


class Pool:
    def __init__(self, it: Interpreter):
        self.it = it
        share = {}
        self.exprs = {k: build(it, t, share) for k, t in pool_trees().items()}
        self.points = {k: make_point_concrete(it, c) for k, c in POINTS.items()}
        self.kept = {}           # objects created by earlier actions and reused (late -> symbolic switch)
        self.returned = []       # (label, object, snapshot) of expressions handed to the caller

    def run(self, action):
        it = self.it
        m = it.model
        kind, e, p, v = action
        ex = self.exprs[e]
        pt = self.points[p] if p else None
        try:
            if kind == "at":
                r = it.call(it.getattr(ex, "at"), [pt], {})
            elif kind == "partial":
                key = ("partial", e, v)
                if key not in self.kept:
                    self.kept[key] = it.call(cref(m, "Partial"), [ex, v], {})
                r = it.call(it.getattr(self.kept[key], "at"), [pt], {})
            elif kind == "partial-early":
                key = ("partial-early", e, v)
                if key not in self.kept:
                    self.kept[key] = it.call(cref(m, "Partial"), [ex, v], {"compute_early": True})
                r = it.call(it.getattr(self.kept[key], "at"), [pt], {})
            elif kind == "located":
                ld = it.call(cref(m, "LocatedDifferential"), [ex, pt], {})
                r = it.call(it.getattr(ld, "component"), [v], {})
            elif kind == "differential-early":
                key = ("differential-early", e)
                if key not in self.kept:
                    self.kept[key] = it.call(cref(m, "Differential"), [ex], {"compute_early": True})
                r = it.call(it.getattr(it.call(it.getattr(self.kept[key], "at"), [pt], {}), "component"), [v], {})
            elif kind == "as_expression":
                key = ("partial", e, v)      # the same late Partial object: switches it to its symbolic path
                if key not in self.kept:
                    self.kept[key] = it.call(cref(m, "Partial"), [ex, v], {})
                r = it.call(it.getattr(self.kept[key], "as_expression"), [], {})
            elif kind == "as_expression-reverse":
                d = it.call(cref(m, "Differential"), [ex], {"compute_early": True})
                r = it.call(it.getattr(it.call(it.getattr(d, "component"), [v], {}), "as_expression"), [], {})
            elif kind == "normalize":
                r = it.call(it.getattr(ex, "_normalize"), [], {})
            else:
                raise Unsupported(f"unknown action {kind}")
        except InterpRaise as r:
            return ("raise", exc_name(r.exc))
        return self.canon(r, f"{kind}:{e}")

    def canon(self, r, label):
        if isinstance(r, Obj) and self.it.model.is_subclass(r.cls, "Expression"):
            t = obj_to_tree(self.it, r)
            self.returned.append((label, r, repr(t)))
            return ("expr", repr(t))
        if isinstance(r, SymNum):
            return ("value", repr(r.conc) if r.conc is not None else repr(r.term))
        if isinstance(r, bool) or isinstance(r, int):
            return ("value", repr(r))
        return ("other", repr(r))

    def snapshot(self):
        """what every pooled object denotes, read through structural fields"""
        it = self.it
        snap = {}
        for k, o in self.exprs.items():
            snap[k] = repr(obj_to_tree(it, o))
            snap[k + ".vars"] = sorted(it.getattr(o, "_variable_names"))
        for k, p in self.points.items():
            c = p.attrs.get("_coordinates")
            snap[k] = repr(sorted((n, repr(v)) for n, v in c.items())) if isinstance(c, dict) else repr(c)
            snap[k + ".order"] = repr(list(c.keys())) if isinstance(c, dict) else ""
        for key, o in self.kept.items():
            for f in ("_original_expression",):
                if f in o.attrs:
                    snap[f"{key}.{f}"] = repr(obj_to_tree(it, o.attrs[f]))
            for f in ("_variable_name",):
                if f in o.attrs:
                    snap[f"{key}.{f}"] = repr(o.attrs[f])
        for i, (label, o, first) in enumerate(self.returned):
            snap[f"returned[{i}] {label}"] = first
            snap[f"returned[{i}] {label} now"] = repr(obj_to_tree(it, o))
        return snap


def run_history(args):
    """Worker: one interpreter, one pool; history then final.  -> results + snapshots"""
    history, final = args
    model = load_model()
    it = Interpreter(model, max_steps=20000000)
    it.generic_only = True
    it.reset_run([])
    try:
        pool = Pool(it)
        before = pool.snapshot()
        hist_results = [pool.run(a) for a in history]
        res = pool.run(final)
        after = pool.snapshot()
    except Unsupported as e:
        return {"status": "unsupported", "reason": str(e)}
    except InterpRaise as r:
        return {"status": "unsupported", "reason": f"pool construction raised {exc_name(r.exc)}"}
    changed = []
    for k, v in before.items():
        if after.get(k) != v:
            changed.append((k, v, after.get(k)))
    for k, v in after.items():
        if k.endswith(" now"):
            first = after.get(k[:-4])
            if first != v:
                changed.append((k[:-4], first, v))
    return {"status": "ok", "result": res, "history_results": hist_results, "changed": changed}


def sample_histories(actions, rng: random.Random, n1: int, n2: int, n3: int):
    out = []
    for a in rng.sample(actions, min(n1, len(actions))):
        out.append([a])
    for _ in range(n2):
        out.append([rng.choice(actions), rng.choice(actions)])
    for _ in range(n3):
        out.append([rng.choice(actions) for _ in range(rng.choice((3, 4, 5)))])
    return out
