"""TAINT: order-taint analysis for C18.

Kinds: 'set' (iteration order depends on the hash seed) and 'odict' (a dict whose insertion
order was decided inside an iteration over a 'set'/'odict' value).  Kinds are inferred
flow-insensitively for locals, parameters (from annotations and from the arguments at every
resolved call site), fields (from constructor assignments/annotations) and function returns,
to a fixed point.  Every iteration site over a tainted value is then classified:
order-free uses (keyed stores, membership, len, ==, sorted, any/all/min/max, building a set
or dict) are accepted; anything that lets the order reach an ordered or accumulated result
(list/tuple/generator/argument list, string joining, float accumulation, positional choice)
is a violation."""
from __future__ import annotations
import ast
from .model import Model, FuncInfo
from .cfg import attr_chain

SET_METHODS = {"union", "intersection", "difference", "symmetric_difference", "copy"}
ORDER_FREE_CONSUMERS = {"set", "frozenset", "sorted", "any", "all", "len", "min", "max", "dict", "bool"}
DICT_VIEWS = {"items", "keys", "values"}


def _ann_kind(ann) -> str:
    if ann is None:
        return ""
    try:
        s = ast.unparse(ann)
    except Exception:
        return ""
    s = s.strip("'\"")
    low = s.lower()
    if low.startswith("set[") or low == "set" or low.startswith("frozenset") or low.startswith("abstractset") \
            or low.startswith("optional[set"):
        return "set"
    return ""


class Taint:
    def __init__(self, model: Model):
        self.model = model
        self.param_kind: dict = {}      # (qualname, param) -> kind   (union over call sites: for sites inside the callee)
        self.field_kind: dict = {}      # field name -> kind
        self.local_kind: dict = {}      # (qualname, name) -> kind    (under param_kind)
        self.intrinsic_return: dict = {}    # qualname -> kind returned whatever the arguments are
        self.return_via: dict = {}          # qualname -> {param: kind returned when that argument is tainted}
        self.sites: list = []
        self._ann_params = {}
        self._seed()
        for _ in range(8):
            if not self._propagate():
                break
        self._classify_sites()

    # ------------------------------------------------------------------ kinds
    def _seed(self):
        for fi in self.model.all_functions():
            a = fi.node.args
            for p in a.posonlyargs + a.args + a.kwonlyargs:
                k = _ann_kind(p.annotation)
                if k:
                    self.param_kind[(fi.qualname, p.arg)] = k
                    self._ann_params[(fi.qualname, p.arg)] = k
            k = _ann_kind(fi.node.returns)
            if k:
                self.intrinsic_return[fi.qualname] = k
            for node in ast.walk(fi.node):
                if isinstance(node, ast.AnnAssign) and isinstance(node.target, ast.Attribute):
                    k = _ann_kind(node.annotation)
                    if k:
                        self.field_kind[node.target.attr] = k

    def _properties(self) -> dict:
        if not hasattr(self, "_prop_cache"):
            d = {}
            for f in self.model.all_functions():
                if f.is_property:
                    d.setdefault(f.name, []).append(f)
            self._prop_cache = d
        return self._prop_cache

    def kind_of(self, fi: FuncInfo, e, ctx=None) -> str:
        """ctx: name -> kind for this function's locals and parameters (default: the global tables)"""
        if e is None:
            return ""
        if isinstance(e, (ast.Set, ast.SetComp)):
            return "set"
        if isinstance(e, ast.Name):
            if ctx is not None:
                return ctx.get(e.id, "")
            return self.local_kind.get((fi.qualname, e.id)) or self.param_kind.get((fi.qualname, e.id), "")
        if isinstance(e, ast.Attribute):
            k = self.field_kind.get(e.attr, "")
            if k:
                return k
            # a property: the kind returned by ANY implementation of it (the receiver's class is not known)
            for pf in self._properties().get(e.attr, ()):
                k = self.intrinsic_return.get(pf.qualname, "")
                if k:
                    return k
            return ""
        if isinstance(e, ast.IfExp):
            return self.kind_of(fi, e.body, ctx) or self.kind_of(fi, e.orelse, ctx)
        if isinstance(e, ast.BinOp) and isinstance(e.op, (ast.BitOr, ast.BitAnd, ast.Sub, ast.BitXor)):
            k = self.kind_of(fi, e.left, ctx)
            return k if k == "set" else ""
        if isinstance(e, ast.DictComp):
            return "odict" if self.kind_of(fi, e.generators[0].iter, ctx) else ""
        if isinstance(e, ast.Call):
            f = e.func
            if isinstance(f, ast.Name) and f.id in ("set", "frozenset"):
                return "set"
            if isinstance(f, ast.Attribute):
                if f.attr in SET_METHODS and self.kind_of(fi, f.value, ctx) == "set":
                    return "set"
                if f.attr in SET_METHODS and isinstance(f.value, ast.Call) and isinstance(f.value.func, ast.Name) \
                        and f.value.func.id in ("set", "frozenset"):
                    return "set"
                if f.attr in DICT_VIEWS and self.kind_of(fi, f.value, ctx) == "odict":
                    return "odict"
                if f.attr == "copy" and self.kind_of(fi, f.value, ctx) == "odict":
                    return "odict"
            if isinstance(f, ast.Name) and f.id == "dict" and e.args and self.kind_of(fi, e.args[0], ctx) == "odict":
                return "odict"
            for callee, offset in self._callees(fi, e):
                k = self.intrinsic_return.get(callee.qualname, "")
                if k:
                    return k
                via = self.return_via.get(callee.qualname, {})
                if via:
                    params = callee.params
                    for i, a in enumerate(e.args):
                        if isinstance(a, ast.Starred):
                            break
                        if i + offset < len(params) and params[i + offset] in via and self.kind_of(fi, a, ctx):
                            return via[params[i + offset]]
                    for kw in e.keywords:
                        if kw.arg in via and self.kind_of(fi, kw.value, ctx):
                            return via[kw.arg]
        return ""

    def _callees(self, fi: FuncInfo, call: ast.Call) -> list:
        """-> [(callee, index offset of the first explicit argument)]"""
        m = self.model
        f = call.func
        r = m.resolve(fi.module, f) if isinstance(f, (ast.Name, ast.Attribute)) else None
        if r and r[0] == "func":
            # module function, or Class.method accessed through the class (explicit self)
            return [(r[1], 0)]
        if r and r[0] == "class":
            init = m.resolve_method(r[1], "__init__")
            return [(init, 1)] if init else []
        if isinstance(f, ast.Attribute):
            # super().m(...)
            if isinstance(f.value, ast.Call) and isinstance(f.value.func, ast.Name) and f.value.func.id == "super" \
                    and fi.cls is not None:
                for c in m.mro(fi.cls)[1:]:
                    if f.attr in c.methods:
                        return [(c.methods[f.attr], 1)]
                return []
            # self.m(...): the method as resolved on the enclosing class and its subclasses
            selfname = fi.params[0] if (fi.cls is not None and fi.params) else None
            if isinstance(f.value, ast.Name) and f.value.id == selfname:
                out = []
                for c in m.classes.values():
                    if m.is_subclass(c, fi.cls.name):
                        t = m.resolve_method(c, f.attr)
                        if t is not None and (t, 1) not in out:
                            out.append((t, 1))
                return out
            if f.attr.startswith("__") and f.attr.endswith("__"):
                return []
            return [(c, 1) for c in m.functions.values() if c.name == f.attr and c.cls is not None]
        return []

    def _local(self, fi: FuncInfo, params: dict):
        """kinds of locals and of the return value of one function under the given parameter kinds"""
        ctx = dict(params)
        fn = fi.node
        ret = ""
        for _ in range(4):
            before = (dict(ctx), ret)
            for node in ast.walk(fn):
                if isinstance(node, ast.For) and self.kind_of(fi, node.iter, ctx):
                    for sub in ast.walk(node):
                        if isinstance(sub, ast.Assign):
                            for t in sub.targets:
                                if isinstance(t, ast.Subscript) and isinstance(t.value, ast.Name) \
                                        and ctx.get(t.value.id) != "set":
                                    ctx[t.value.id] = "odict"
            for node in ast.walk(fn):
                if isinstance(node, ast.AnnAssign) and isinstance(node.target, ast.Name) and _ann_kind(node.annotation):
                    ctx[node.target.id] = _ann_kind(node.annotation)
                if isinstance(node, ast.Assign):
                    k = self.kind_of(fi, node.value, ctx)
                    if k:
                        for t in node.targets:
                            if isinstance(t, ast.Name) and ctx.get(t.id) != "set":
                                ctx[t.id] = k
                elif isinstance(node, ast.Return) and node.value is not None:
                    k = self.kind_of(fi, node.value, ctx)
                    if k and ret != "set":
                        ret = k
            if (ctx, ret) == before:
                break
        return ctx, ret

    def _propagate(self) -> bool:
        changed = False

        def setk(table, key, k):
            nonlocal changed
            if k and table.get(key) != k and table.get(key) != "set":
                table[key] = k
                changed = True

        for fi in self.model.all_functions():
            ann = {p: k for (q, p), k in self._ann_params.items() if q == fi.qualname}
            # summaries: intrinsic return and return-via-parameter
            _ctx0, ret0 = self._local(fi, ann)
            if ret0:
                setk(self.intrinsic_return, fi.qualname, ret0)
            else:
                for p in fi.params:
                    if p in ann:
                        continue
                    _c, r = self._local(fi, {**ann, p: "odict"})
                    if not r:
                        _c, r = self._local(fi, {**ann, p: "set"})
                    if r:
                        via = self.return_via.setdefault(fi.qualname, {})
                        if via.get(p) != r:
                            via[p] = r
                            changed = True
            # kinds under the union of call-site arguments (for classifying sites inside this function)
            params = {p: k for (q, p), k in self.param_kind.items() if q == fi.qualname}
            ctx, _ret = self._local(fi, params)
            for nm, k in ctx.items():
                if nm not in params:
                    setk(self.local_kind, (fi.qualname, nm), k)
            for node in ast.walk(fi.node):
                if isinstance(node, ast.Assign):
                    k = self.kind_of(fi, node.value, ctx)
                    if k:
                        for t in node.targets:
                            if isinstance(t, ast.Attribute):
                                setk(self.field_kind, t.attr, k)
                elif isinstance(node, ast.Call):
                    for callee, offset in self._callees(fi, node):
                        cparams = callee.params
                        for i, a in enumerate(node.args):
                            if isinstance(a, ast.Starred):
                                break
                            k = self.kind_of(fi, a, ctx)
                            if k and i + offset < len(cparams):
                                setk(self.param_kind, (callee.qualname, cparams[i + offset]), k)
                        for kw in node.keywords:
                            if kw.arg:
                                k = self.kind_of(fi, kw.value, ctx)
                                if k and kw.arg in cparams:
                                    setk(self.param_kind, (callee.qualname, kw.arg), k)
        return changed

    # ------------------------------------------------------------------ sites
    def _classify_sites(self):
        for fi in self.model.all_functions():
            fn = fi.node
            parents = {}
            for node in ast.walk(fn):
                for c in ast.iter_child_nodes(node):
                    parents[c] = node
            for node in ast.walk(fn):
                if isinstance(node, ast.For):
                    k = self.kind_of(fi, node.iter)
                    if k:
                        ok, why = self._for_body_order_free(node)
                        self._site(fi, node, k, "for loop", ok, why)
                elif isinstance(node, (ast.ListComp, ast.GeneratorExp, ast.SetComp, ast.DictComp)):
                    for g in node.generators:
                        k = self.kind_of(fi, g.iter)
                        if not k:
                            continue
                        if isinstance(node, (ast.SetComp, ast.DictComp)):
                            self._site(fi, node, k, "comprehension", True, "builds a set/dict (keyed, order-free)")
                        else:
                            par = parents.get(node)
                            if isinstance(par, ast.Starred):
                                par = parents.get(par)
                            consumer = ""
                            if isinstance(par, ast.Call):
                                f = par.func
                                consumer = f.id if isinstance(f, ast.Name) else (f.attr if isinstance(f, ast.Attribute) else "")
                            if consumer in ORDER_FREE_CONSUMERS or consumer in SET_METHODS:
                                self._site(fi, node, k, "comprehension", True, f"consumed by order-free {consumer}()")
                            else:
                                self._site(fi, node, k, "comprehension", False,
                                           "an ordered list/generator is built in the iteration order of a set"
                                           + (f" and passed to {consumer}()" if consumer else ""))
                elif isinstance(node, ast.Starred) and isinstance(getattr(node, "ctx", None), ast.Load):
                    k = self.kind_of(fi, node.value)
                    if k:
                        par = parents.get(node)
                        consumer = ""
                        if isinstance(par, ast.Call):
                            f = par.func
                            consumer = f.id if isinstance(f, ast.Name) else (f.attr if isinstance(f, ast.Attribute) else "")
                        ok = consumer in ORDER_FREE_CONSUMERS or consumer in SET_METHODS
                        self._site(fi, node, k, "*-splat", ok, f"splatted into {consumer or 'a sequence'}")
                elif isinstance(node, ast.Call):
                    f = node.func
                    nm = f.id if isinstance(f, ast.Name) else (f.attr if isinstance(f, ast.Attribute) else "")
                    if isinstance(f, ast.Name) and nm in ("list", "tuple", "iter", "next", "enumerate", "zip", "sum", "reversed") \
                            and node.args:
                        k = self.kind_of(fi, node.args[0])
                        if k:
                            par = parents.get(node)
                            wrapped = isinstance(par, ast.Call) and isinstance(par.func, ast.Name) and par.func.id in ORDER_FREE_CONSUMERS
                            self._site(fi, node, k, f"{nm}()", wrapped,
                                       "wrapped in an order-free consumer" if wrapped else
                                       f"{nm}() materialises the iteration order of a set")
                    if isinstance(f, ast.Name) and nm in ("sorted", "min", "max") and node.args \
                            and any(kw.arg == "key" for kw in node.keywords):
                        k = self.kind_of(fi, node.args[0])
                        if k:
                            self._site(fi, node, k, f"{nm}(key=...)", False,
                                       "elements that tie under the key keep the iteration order of the set")
                    if isinstance(f, ast.Attribute) and nm == "join" and node.args and self.kind_of(fi, node.args[0]):
                        self._site(fi, node, self.kind_of(fi, node.args[0]), "str.join", False,
                                   "a string is built in the iteration order of a set")
                    if isinstance(f, ast.Attribute) and nm in ("pop", "popitem") and not node.args \
                            and self.kind_of(fi, f.value) == "set":
                        self._site(fi, node, "set", "set.pop()", False, "an arbitrary element is chosen")
                elif isinstance(node, ast.Assign) and isinstance(node.targets[0], (ast.Tuple, ast.List)):
                    k = self.kind_of(fi, node.value)
                    if k:
                        n = len(node.targets[0].elts)
                        self._site(fi, node, k, "unpacking", n == 1,
                                   "single-element unpacking (order-free)" if n == 1 else
                                   f"{n} elements are taken by position from a set")

    def _for_body_order_free(self, loop: ast.For):
        """keyed stores / local bindings / order-free set updates only"""
        targets = set()
        for t in ast.walk(loop.target):
            if isinstance(t, ast.Name):
                targets.add(t.id)

        def stmt_ok(st):
            if isinstance(st, (ast.Pass, ast.Continue)):
                return True, ""
            if isinstance(st, ast.AnnAssign) and st.value is None:
                return True, ""
            if isinstance(st, ast.Assign):
                for t in st.targets:
                    if isinstance(t, ast.Name):
                        continue
                    if isinstance(t, ast.Subscript):
                        key_names = {n.id for n in ast.walk(t.slice) if isinstance(n, ast.Name)}
                        if key_names & targets or key_names:
                            continue
                    return False, f"line {st.lineno}: store that is not keyed by the loop variable"
                return True, ""
            if isinstance(st, ast.If):
                for s in st.body + st.orelse:
                    ok, why = stmt_ok(s)
                    if not ok:
                        return ok, why
                return True, ""
            if isinstance(st, ast.Expr) and isinstance(st.value, ast.Call) and isinstance(st.value.func, ast.Attribute) \
                    and st.value.func.attr in ("add", "discard", "update", "setdefault"):
                return True, ""
            if isinstance(st, ast.AugAssign):
                return False, f"line {st.lineno}: accumulation across elements (order-sensitive for floats/strings/lists)"
            if isinstance(st, ast.Expr) and isinstance(st.value, ast.Call) and isinstance(st.value.func, ast.Attribute) \
                    and st.value.func.attr in ("append", "extend", "insert"):
                return False, f"line {st.lineno}: an ordered container is extended in the iteration order of a set"
            if isinstance(st, (ast.Return, ast.Break)):
                return False, f"line {st.lineno}: the first element in iteration order decides the outcome"
            return False, f"line {st.lineno}: {type(st).__name__} inside an iteration over a set"
        for st in loop.body:
            ok, why = stmt_ok(st)
            if not ok:
                return False, why
        return True, "body only stores by key / binds locals"

    def _site(self, fi, node, kind, what, ok, why):
        self.sites.append({"func": fi, "where": f"{fi.module.rel}:{getattr(node, 'lineno', 0)}", "kind": kind,
                           "what": what, "ok": ok, "why": why, "src": ast.unparse(node)[:90]})


def identity_uses(model: Model):
    """hash()/id() calls outside __hash__ bodies, __del__, weakref: identity- or seed-dependent values"""
    out = []
    for fi in model.all_functions():
        for node in ast.walk(fi.node):
            if isinstance(node, ast.Call) and isinstance(node.func, ast.Name) and node.func.id in ("hash", "id"):
                inside_hash = fi.name == "__hash__"
                ok = node.func.id == "hash" and inside_hash
                out.append({"func": fi, "where": f"{fi.module.rel}:{node.lineno}", "call": node.func.id, "ok": ok})
        if fi.name == "__del__":
            out.append({"func": fi, "where": fi.where, "call": "__del__", "ok": False})
    return out


NONDETERMINISTIC_MODULES = {"random", "time", "os", "sys", "datetime", "uuid", "secrets", "weakref", "threading",
                            "multiprocessing", "socket", "subprocess", "tempfile"}


def nondeterministic_imports(model: Model):
    out = []
    for mod in model.modules.values():
        for node in ast.walk(mod.tree):
            if isinstance(node, ast.Import):
                for al in node.names:
                    if al.name.split(".")[0] in NONDETERMINISTIC_MODULES:
                        out.append((mod, node.lineno, al.name))
            elif isinstance(node, ast.ImportFrom) and node.module and node.module.split(".")[0] in NONDETERMINISTIC_MODULES:
                out.append((mod, node.lineno, node.module))
    return out
