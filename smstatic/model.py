"""Program model of /repo/src/smoothmath, rebuilt from source on every run.

Parses every module, builds per-module binding tables (imports, classes, functions,
module-level assignments), a class table with resolved bases and MRO, and a resolver for
`Name` / `Attribute` expressions through the package's import aliases.  The package uses
one import style (`import a.b.c as x`, `from a.b import C`) and single inheritance, so a
syntactic resolver is exact for every reference the checks depend on; what it cannot
resolve is returned as None and the caller decides (usually: inconclusive).
"""
from __future__ import annotations
import ast
import os
from dataclasses import dataclass, field
from typing import Optional, Iterator

REPO = os.environ.get("SMSTATIC_REPO", "/repo")
PKG_NAME = "smoothmath"


class AnalysisError(Exception):
    """An anchor vanished / source cannot be parsed / internal inconsistency: exit 2."""


class Inconclusive(Exception):
    """A construct is outside the idioms a recogniser understands: exit 2, never exit 1."""

    def __init__(self, construct: str, reason: str):
        super().__init__(f"{construct}: {reason}")
        self.construct = construct
        self.reason = reason


@dataclass
class ModuleInfo:
    name: str                 # dotted name
    path: str                 # absolute path
    rel: str                  # path relative to repo root
    tree: ast.Module
    source: str
    is_package: bool
    bindings: dict = field(default_factory=dict)   # name -> binding tuple
    type_only: set = field(default_factory=set)    # names bound under TYPE_CHECKING only

    def line(self, lineno: int) -> str:
        lines = self.source.splitlines()
        if 1 <= lineno <= len(lines):
            return lines[lineno - 1]
        return ""


@dataclass
class FuncInfo:
    qualname: str             # "Class.method" or "modshort.func"
    name: str
    node: ast.FunctionDef
    module: ModuleInfo
    cls: Optional["ClassInfo"]
    is_property: bool = False
    is_abstract: bool = False

    @property
    def where(self) -> str:
        return f"{self.module.rel}:{self.node.lineno}"

    @property
    def params(self) -> list[str]:
        a = self.node.args
        return [x.arg for x in a.posonlyargs + a.args]

    def __hash__(self):
        return hash(self.qualname)

    def __eq__(self, other):
        return isinstance(other, FuncInfo) and other.qualname == self.qualname

    def __repr__(self):
        return f"<func {self.qualname}>"


@dataclass
class ClassInfo:
    name: str
    node: ast.ClassDef
    module: ModuleInfo
    base_exprs: list
    bases: list = field(default_factory=list)      # resolved ClassInfo (package classes only)
    ext_bases: list = field(default_factory=list)  # dotted names of external bases
    methods: dict = field(default_factory=dict)    # name -> FuncInfo (own methods only)
    class_assigns: list = field(default_factory=list)
    foreign: bool = False     # a class that is NOT part of the package (a caller's look-alike)

    @property
    def where(self) -> str:
        return f"{self.module.rel}:{self.node.lineno}"

    @property
    def key(self) -> str:
        return ("<foreign>" + self.name) if self.foreign else self.name

    def __hash__(self):
        return hash(self.key)

    def __eq__(self, other):
        return isinstance(other, ClassInfo) and other.key == self.key

    def __repr__(self):
        return f"<class {self.name}>"


def _decorator_names(fn: ast.FunctionDef) -> set[str]:
    out = set()
    for d in fn.decorator_list:
        if isinstance(d, ast.Name):
            out.add(d.id)
        elif isinstance(d, ast.Attribute):
            out.add(d.attr)
    return out


class Model:
    def __init__(self, repo: str = None):
        self.repo = repo or REPO
        self.src_root = os.path.join(self.repo, "src")
        self.pkg_root = os.path.join(self.src_root, PKG_NAME)
        if not os.path.isdir(self.pkg_root):
            raise AnalysisError(f"anchor missing: package directory {self.pkg_root}")
        self.modules: dict[str, ModuleInfo] = {}
        self.classes: dict[str, ClassInfo] = {}
        self.functions: dict[str, FuncInfo] = {}
        self._mro_cache: dict = {}
        self._rm_cache: dict = {}
        self._parse_all()
        self._bind_all()
        self._resolve_bases()

    # ------------------------------------------------------------------ parsing
    def _parse_all(self) -> None:
        for dirpath, dirnames, filenames in os.walk(self.pkg_root):
            dirnames[:] = sorted(d for d in dirnames if d != "__pycache__")
            for fn in sorted(filenames):
                if not fn.endswith(".py"):
                    continue
                path = os.path.join(dirpath, fn)
                rel = os.path.relpath(path, self.repo)
                parts = os.path.relpath(path, self.src_root)[:-3].split(os.sep)
                is_pkg = parts[-1] == "__init__"
                if is_pkg:
                    parts = parts[:-1]
                name = ".".join(parts)
                try:
                    with open(path, encoding="utf-8") as f:
                        source = f.read()
                    tree = ast.parse(source, filename=path)
                except (OSError, SyntaxError, ValueError) as e:
                    raise AnalysisError(f"cannot parse {rel}: {e}")
                self.modules[name] = ModuleInfo(name, path, rel, tree, source, is_pkg)
        if not self.modules:
            raise AnalysisError("no modules parsed")

    def _bind_all(self) -> None:
        for mod in self.modules.values():
            self._bind_block(mod, mod.tree.body, type_only=False)

    def _bind_block(self, mod: ModuleInfo, body, type_only: bool) -> None:
        for st in body:
            if isinstance(st, ast.Import):
                for al in st.names:
                    if al.asname:
                        mod.bindings[al.asname] = ("module", al.name)
                        if type_only:
                            mod.type_only.add(al.asname)
                    else:
                        top = al.name.split(".")[0]
                        mod.bindings.setdefault(top, ("module", top))
            elif isinstance(st, ast.ImportFrom):
                if st.level:
                    base = mod.name.split(".")
                    if not mod.is_package:
                        base = base[:-1]
                    base = base[: len(base) - (st.level - 1)]
                    src = ".".join(base + ([st.module] if st.module else []))
                else:
                    src = st.module or ""
                for al in st.names:
                    nm = al.asname or al.name
                    if type_only and nm in mod.bindings:
                        continue
                    mod.bindings[nm] = ("from", src, al.name)
                    if type_only:
                        mod.type_only.add(nm)
            elif isinstance(st, ast.ClassDef):
                ci = ClassInfo(st.name, st, mod, list(st.bases))
                for sub in st.body:
                    if isinstance(sub, (ast.FunctionDef, ast.AsyncFunctionDef)):
                        decos = _decorator_names(sub)
                        fi = FuncInfo(f"{st.name}.{sub.name}", sub.name, sub, mod, ci,
                                      is_property="property" in decos,
                                      is_abstract="abstractmethod" in decos)
                        ci.methods[sub.name] = fi
                        self.functions[fi.qualname] = fi
                    elif isinstance(sub, (ast.Assign, ast.AnnAssign, ast.AugAssign)):
                        ci.class_assigns.append(sub)
                if st.name in self.classes:
                    raise AnalysisError(f"class name {st.name} defined twice "
                                        f"({self.classes[st.name].where}, {ci.where})")
                self.classes[st.name] = ci
                mod.bindings[st.name] = ("class", ci)
            elif isinstance(st, (ast.FunctionDef, ast.AsyncFunctionDef)):
                short = mod.name.split(".")[-1]
                fi = FuncInfo(f"{short}.{st.name}", st.name, st, mod, None)
                if fi.qualname in self.functions:
                    raise AnalysisError(f"function {fi.qualname} defined twice")
                self.functions[fi.qualname] = fi
                mod.bindings[st.name] = ("func", fi)
            elif isinstance(st, ast.Assign):
                for t in st.targets:
                    if isinstance(t, ast.Name):
                        mod.bindings[t.id] = ("global", st.value, st)
            elif isinstance(st, ast.AnnAssign):
                if isinstance(st.target, ast.Name) and st.value is not None:
                    mod.bindings[st.target.id] = ("global", st.value, st)
            elif isinstance(st, ast.If):
                test = st.test
                is_tc = (isinstance(test, ast.Name) and test.id == "TYPE_CHECKING") or (
                    isinstance(test, ast.Attribute) and test.attr == "TYPE_CHECKING")
                self._bind_block(mod, st.body, type_only or is_tc)
                self._bind_block(mod, st.orelse, type_only)
            elif isinstance(st, ast.Try):
                self._bind_block(mod, st.body, type_only)

    def _resolve_bases(self) -> None:
        for ci in self.classes.values():
            for b in ci.base_exprs:
                r = self.resolve(ci.module, b)
                if r is not None and r[0] == "class":
                    ci.bases.append(r[1])
                else:
                    ci.ext_bases.append(ast.unparse(b))
            if len(ci.bases) > 1:
                raise AnalysisError(f"multiple package bases for {ci.name} (single inheritance assumed)")

    # --------------------------------------------------------------- resolution
    def _follow(self, binding, depth=0):
        """Follow a binding to ('class', ci) | ('func', fi) | ('module', ModuleInfo)
        | ('ext', dotted) | ('global', value_ast, module) | None."""
        if binding is None or depth > 12:
            return None
        kind = binding[0]
        if kind in ("class", "func"):
            return binding
        if kind == "global":
            return binding
        if kind == "module":
            name = binding[1]
            if name in self.modules:
                return ("module", self.modules[name])
            return ("ext", name)
        if kind == "from":
            src, name = binding[1], binding[2]
            full = f"{src}.{name}"
            if full in self.modules:
                return ("module", self.modules[full])
            if src in self.modules:
                return self._follow(self.modules[src].bindings.get(name), depth + 1)
            return ("ext", full)
        return None

    def resolve(self, mod: ModuleInfo, node: ast.AST):
        """Resolve a Name/Attribute chain appearing in module `mod`."""
        if isinstance(node, ast.Name):
            return self._follow(mod.bindings.get(node.id))
        if isinstance(node, ast.Attribute):
            base = self.resolve(mod, node.value)
            if base is None:
                return None
            if base[0] == "module":
                m = base[1]
                sub = f"{m.name}.{node.attr}"
                if node.attr in m.bindings:
                    return self._follow(m.bindings[node.attr])
                if sub in self.modules:
                    return ("module", self.modules[sub])
                return None
            if base[0] == "ext":
                return ("ext", f"{base[1]}.{node.attr}")
            if base[0] == "class":
                fi = self.resolve_method(base[1], node.attr)
                if fi is not None:
                    return ("func", fi)
            return None
        return None

    # ------------------------------------------------------------------ classes
    def mro(self, ci: ClassInfo) -> list[ClassInfo]:
        c = self._mro_cache.get(ci.key)
        if c is None:
            c = self._mro_cache[ci.key] = self._mro(ci)
        return c

    def _mro(self, ci: ClassInfo) -> list[ClassInfo]:
        out = [ci]
        seen = {ci.name}
        cur = ci
        while cur.bases:
            cur = cur.bases[0]
            if cur.name in seen:
                raise AnalysisError(f"inheritance cycle at {cur.name}")
            seen.add(cur.name)
            out.append(cur)
        return out

    def resolve_method(self, ci: ClassInfo, name: str) -> Optional[FuncInfo]:
        key = (ci.key, name)
        try:
            return self._rm_cache[key]
        except KeyError:
            pass
        r = None
        for c in self.mro(ci):
            if name in c.methods:
                r = c.methods[name]
                break
        self._rm_cache[key] = r
        return r

    def is_subclass(self, ci: ClassInfo, base_name: str) -> bool:
        key = (ci.key, base_name)
        r = self._rm_cache.get(("<sub>", key))
        if r is None:
            r = any(c.name == base_name and not c.foreign for c in self.mro(ci))
            self._rm_cache[("<sub>", key)] = r
        return r

    def subclasses(self, base_name: str, strict=False) -> list[ClassInfo]:
        out = []
        for ci in self.classes.values():
            if self.is_subclass(ci, base_name) and not (strict and ci.name == base_name):
                out.append(ci)
        return out

    def is_concrete(self, ci: ClassInfo) -> bool:
        """No abstract method left unimplemented along the MRO."""
        seen = set()
        for c in self.mro(ci):
            for nm, fi in c.methods.items():
                if nm in seen:
                    continue
                seen.add(nm)
                if fi.is_abstract:
                    return False
        return True

    def concrete_expression_classes(self) -> list[ClassInfo]:
        out = [ci for ci in self.subclasses("Expression", strict=True) if self.is_concrete(ci)]
        return sorted(out, key=lambda c: c.name)

    def cls(self, name: str) -> ClassInfo:
        if name not in self.classes:
            raise AnalysisError(f"anchor missing: class {name}")
        return self.classes[name]

    def func(self, qualname: str) -> FuncInfo:
        if qualname not in self.functions:
            raise AnalysisError(f"anchor missing: function {qualname}")
        return self.functions[qualname]

    def method(self, cls_name: str, name: str) -> FuncInfo:
        fi = self.resolve_method(self.cls(cls_name), name)
        if fi is None:
            raise AnalysisError(f"anchor missing: method {cls_name}.{name}")
        return fi

    def all_functions(self) -> Iterator[FuncInfo]:
        return iter(sorted(self.functions.values(), key=lambda f: f.qualname))

    def where(self, mod: ModuleInfo, node: ast.AST) -> str:
        return f"{mod.rel}:{getattr(node, 'lineno', 0)}"


def shape_of_expression_class(model: Model, ci: ClassInfo) -> str:
    """'leaf' | 'unary' | 'param' | 'binary' | 'nary' by base class."""
    names = [c.name for c in model.mro(ci)]
    if "ParameterizedUnaryExpression" in names:
        return "param"
    if "UnaryExpression" in names:
        return "unary"
    if "BinaryExpression" in names:
        return "binary"
    if "NAryExpression" in names:
        return "nary"
    return "leaf"


_MODEL_CACHE: dict = {}


def load_model(repo: str = None) -> Model:
    key = repo or REPO
    if key not in _MODEL_CACHE:
        _MODEL_CACHE[key] = Model(key)
    return _MODEL_CACHE[key]
