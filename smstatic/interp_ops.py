"""Operators, builtins, native methods and external (math/re/logging) calls."""
from __future__ import annotations
import math
import re

from .interp import Interp, Unsupported, InterpRaise, StepLimit, BUILTIN_EXCEPTIONS
from .interp_exec import ExecMixin
from .model import FuncInfo
from .regions import IV, UNIT, hull
from .values import (SymNum, ComplexVal, Maybe, Obj, ExcObj, ClassRef, BuiltinType, ModRef,
                     ExtRef, BoundMethod, NativeMethod, Closure, SuperProxy, HashVal,
                     RegexObj, Builtin, OneShot, ForeignReflecting)

_BIN_DUNDER = {"Add": "add", "Sub": "sub", "Mult": "mul", "Div": "truediv", "Pow": "pow",
               "Mod": "mod", "FloorDiv": "floordiv", "MatMult": "matmul", "BitAnd": "and",
               "BitOr": "or", "BitXor": "xor", "LShift": "lshift", "RShift": "rshift"}


def is_num(v) -> bool:
    return (isinstance(v, (int, SymNum)) and not isinstance(v, bool)) or isinstance(v, bool)


class OpsMixin:
    # ------------------------------------------------------------ arithmetic
    def neg(self, v):
        if isinstance(v, bool) or isinstance(v, int):
            return -v
        if isinstance(v, SymNum):
            conc = -v.conc if v.conc is not None else None
            return SymNum(("neg", v.term), v.iv.neg(), conc)
        if isinstance(v, ComplexVal):
            return v
        if isinstance(v, Obj):
            return self.call_dunder(v, "__neg__", [])
        self.raise_builtin("TypeError", "bad operand type for unary -")

    def binop(self, opname, a, b):
        if is_num(a) and is_num(b):
            return self.num_binop(opname, a, b)
        if isinstance(a, ComplexVal) or isinstance(b, ComplexVal):
            if is_num(a) or is_num(b) or (isinstance(a, ComplexVal) and isinstance(b, ComplexVal)):
                return ComplexVal()
        if isinstance(a, Obj):
            fi = self.model.resolve_method(a.cls, f"__{_BIN_DUNDER[opname]}__")
            if fi is not None:
                r = self.call_function(fi, [a, b], {})
                if not (isinstance(r, Builtin) and r.name == "NotImplemented"):
                    return r
        if isinstance(b, ForeignReflecting):
            return f"<result of the foreign operand's reflected {opname}>"
        if isinstance(b, Obj):
            fi = self.model.resolve_method(b.cls, f"__r{_BIN_DUNDER[opname]}__")
            if fi is not None:
                r = self.call_function(fi, [b, a], {})
                if not (isinstance(r, Builtin) and r.name == "NotImplemented"):
                    return r
        if opname == "Add":
            if isinstance(a, list) and isinstance(b, list):
                return a + b
            if isinstance(a, tuple) and isinstance(b, tuple):
                return a + b
            if isinstance(a, str) and isinstance(b, str):
                return a + b
        if opname == "Mult":
            if isinstance(a, (list, tuple, str)) and isinstance(b, int):
                return a * b
            if isinstance(b, (list, tuple, str)) and isinstance(a, int):
                return a * b
        if opname == "Mod" and isinstance(a, str):
            raise Unsupported("%-formatting")
        if opname == "BitOr":
            if isinstance(a, (set, frozenset)) and isinstance(b, (set, frozenset)):
                return a | b
            if isinstance(a, dict) and isinstance(b, dict):
                return {**a, **b}
            if isinstance(a, (BuiltinType, ClassRef, ExtRef)) or a is None:
                return a    # typing unions
        if opname == "BitAnd" and isinstance(a, (set, frozenset)) and isinstance(b, (set, frozenset)):
            return a & b
        if opname == "Sub" and isinstance(a, (set, frozenset)) and isinstance(b, (set, frozenset)):
            return a - b
        if isinstance(a, ExtRef) or isinstance(b, ExtRef):
            raise Unsupported(f"operand {a if isinstance(a, ExtRef) else b} is an external value that is not modelled")
        self.raise_builtin("TypeError", f"unsupported operand type(s) for {opname}: "
                                        f"{self.type_name(a)} and {self.type_name(b)}")

    def num_binop(self, opname, a, b):
        ai = isinstance(a, int)
        bi = isinstance(b, int)
        if ai and bi:
            try:
                if opname == "Add":
                    return a + b
                if opname == "Sub":
                    return a - b
                if opname == "Mult":
                    return a * b
                if opname == "FloorDiv":
                    return a // b
                if opname == "Mod":
                    return a % b
                if opname == "Pow":
                    if b >= 0:
                        if abs(a) > 1 and b > 4096:
                            raise Unsupported("huge integer power")
                        return a ** b
                    return self.num_binop(opname, SymNum.of(a), b)
                if opname == "Div":
                    if b == 0:
                        self.raise_builtin("ZeroDivisionError", "division by zero")
                    q = a / b
                    return SymNum(("div", ("c", a), ("c", b)), IV.point(q), q)
                if opname in ("BitAnd", "BitOr", "BitXor", "LShift", "RShift"):
                    return {"BitAnd": a & b, "BitOr": a | b, "BitXor": a ^ b,
                            "LShift": a << b, "RShift": a >> b}[opname]
            except ZeroDivisionError:
                self.raise_builtin("ZeroDivisionError", "integer division or modulo by zero")
            raise Unsupported(f"int operator {opname}")
        x = SymNum.of(a)
        y = SymNum.of(b)
        conc = None
        if x.conc is not None and y.conc is not None:
            try:
                if opname == "Add":
                    conc = x.conc + y.conc
                elif opname == "Sub":
                    conc = x.conc - y.conc
                elif opname == "Mult":
                    conc = x.conc * y.conc
                elif opname == "Div":
                    conc = x.conc / y.conc
                elif opname == "Pow":
                    conc = x.conc ** y.conc
                elif opname == "Mod":
                    conc = x.conc % y.conc
                elif opname == "FloorDiv":
                    conc = x.conc // y.conc
                else:
                    raise Unsupported(f"float operator {opname}")
            except ZeroDivisionError:
                self.raise_builtin("ZeroDivisionError", "float division by zero")
            except OverflowError:
                self.raise_builtin("OverflowError", "numerical result out of range")
            if isinstance(conc, complex):
                return ComplexVal()
            if opname in ("Mod", "FloorDiv"):
                return SymNum(("c", conc), IV.point(conc), conc)
        elif opname in ("Mod", "FloorDiv"):
            raise Unsupported(f"{opname} on a symbolic real")
        if opname == "Add":
            term, iv = ("add", x.term, y.term), x.iv.add(y.iv)
        elif opname == "Sub":
            term, iv = ("add", x.term, ("neg", y.term)), x.iv.sub(y.iv)
        elif opname == "Mult":
            term, iv = ("mul", x.term, y.term), x.iv.mul(y.iv)
        elif opname == "Div":
            if conc is None:
                if y.iv.is_point() and y.iv.lo == 0:
                    self.raise_builtin("ZeroDivisionError", "float division by zero")
                if y.iv.contains(0.0):
                    if self.decide(Maybe(f"divisor {y!r} == 0")):
                        self.raise_builtin("ZeroDivisionError", "float division by zero")
            term, iv = ("div", x.term, y.term), x.iv.div(y.iv)
        elif opname == "Pow":
            if bi:
                if conc is None and b < 0 and x.iv.contains(0.0):
                    if x.iv.is_point() or self.decide(Maybe(f"base {x!r} == 0 with negative exponent")):
                        self.raise_builtin("ZeroDivisionError", "0.0 cannot be raised to a negative power")
                term, iv = ("powi", x.term, b), x.iv.pow_int(b)
            else:
                if conc is None:
                    s = x.iv.sign()
                    if s is None:
                        if self.decide(Maybe(f"base {x!r} > 0")):
                            s = "+"
                        else:
                            s = "-" if self.decide(Maybe(f"base {x!r} < 0")) else "0"
                    if s == "-":
                        if y.conc is not None and float(y.conc).is_integer():
                            return SymNum(("powi", x.term, int(y.conc)), x.iv.pow_int(int(y.conc)), None)
                        if y.conc is None:
                            self.imprecise = True
                        return ComplexVal()
                    if s == "0":
                        ys = y.iv.sign()
                        if ys is None:
                            ys = "+" if self.decide(Maybe(f"exponent {y!r} > 0")) else (
                                "-" if self.decide(Maybe(f"exponent {y!r} < 0")) else "0")
                        if ys == "-":
                            self.raise_builtin("ZeroDivisionError", "0.0 cannot be raised to a negative power")
                        v = 0.0 if ys == "+" else 1.0
                        return SymNum(("c", v), IV.point(v), v)
                    iv = (x.iv if s == "+" else IV(0.0, math.inf, True, True)).pow_real(y.iv)
                else:
                    iv = IV.point(conc)
                term = ("pow", x.term, y.term)
                return SymNum(term, iv if conc is None else IV.point(conc), conc)
        else:
            raise Unsupported(f"numeric operator {opname}")
        if conc is not None:
            iv = IV.point(conc)
        return SymNum(term, iv, conc)

    # ------------------------------------------------------------ comparison
    def compare(self, op, a, b):
        if op == "is":
            return self.identical(a, b)
        if op == "is not":
            return not self.identical(a, b)
        if op == "in":
            return self.contains(b, a)
        if op == "not in":
            r = self.contains(b, a)
            return r.negated() if isinstance(r, Maybe) else (not r)
        if op == "==":
            return self.equals(a, b)
        if op == "!=":
            if isinstance(a, Obj):
                fi = self.model.resolve_method(a.cls, "__ne__")
                if fi is not None:
                    return self.call_function(fi, [a, b], {})
            r = self.equals(a, b)
            return r.negated() if isinstance(r, Maybe) else (not self.truth(r))
        # ordering
        if isinstance(a, ComplexVal) or isinstance(b, ComplexVal):
            self.raise_builtin("TypeError", f"'{op}' not supported for complex")
        if is_num(a) and is_num(b):
            return self.num_compare(op, a, b)
        if isinstance(a, str) and isinstance(b, str):
            return {"<": a < b, "<=": a <= b, ">": a > b, ">=": a >= b}[op]
        if isinstance(a, (list, tuple)) and type(a) is type(b):
            for x, y in zip(a, b):
                if not self.truth(self.equals(x, y)):
                    return self.compare(op, x, y)
            return {"<": len(a) < len(b), "<=": len(a) <= len(b),
                    ">": len(a) > len(b), ">=": len(a) >= len(b)}[op]
        if isinstance(a, Obj):
            nm = {"<": "__lt__", "<=": "__le__", ">": "__gt__", ">=": "__ge__"}[op]
            fi = self.model.resolve_method(a.cls, nm)
            if fi is not None:
                return self.call_function(fi, [a, b], {})
        if isinstance(a, (set, frozenset)) and isinstance(b, (set, frozenset)):
            return {"<": a < b, "<=": a <= b, ">": a > b, ">=": a >= b}[op]
        if isinstance(a, ExtRef) or isinstance(b, ExtRef):
            raise Unsupported(f"operand {a if isinstance(a, ExtRef) else b} is an external value that is not modelled")
        self.raise_builtin("TypeError", f"'{op}' not supported between instances of "
                                        f"{self.type_name(a)!r} and {self.type_name(b)!r}")

    def identical(self, a, b) -> bool:
        if a is None or b is None:
            return a is b
        if isinstance(a, bool) or isinstance(b, bool):
            return a is b
        if isinstance(a, (ClassRef, BuiltinType)):
            return a == b
        if isinstance(a, int) and isinstance(b, int):
            return a == b
        return a is b

    def num_compare(self, op, a, b):
        if isinstance(a, int) and isinstance(b, int):     # exact, whatever the size
            return {"<": a < b, "<=": a <= b, ">": a > b, ">=": a >= b, "==": a == b}[op]
        x, y = SymNum.of(a), SymNum.of(b)
        if x.conc is not None and y.conc is not None:
            p, q = x.conc, y.conc
            return {"<": p < q, "<=": p <= q, ">": p > q, ">=": p >= q, "==": p == q}[op]
        if x is y or x.term == y.term:
            return op in ("<=", ">=", "==")
        d = x.iv.sub(y.iv)
        desc = f"{x!r} {op} {y!r}"
        if op == "==":
            if d.nonzero():
                return False
            return Maybe(desc, generic=False)
        if op == "<":
            return True if d.all_lt(0) else (False if d.all_ge(0) else Maybe(desc))
        if op == "<=":
            return True if d.all_le(0) else (False if d.all_gt(0) else Maybe(desc))
        if op == ">":
            return True if d.all_gt(0) else (False if d.all_le(0) else Maybe(desc))
        if op == ">=":
            return True if d.all_ge(0) else (False if d.all_lt(0) else Maybe(desc))
        raise Unsupported(op)

    def equals(self, a, b):
        if isinstance(a, Obj):
            fi = self.model.resolve_method(a.cls, "__eq__")
            if fi is not None:
                r = self.call_function(fi, [a, b], {})
                if not (isinstance(r, Builtin) and r.name == "NotImplemented"):
                    return r
            if isinstance(b, Obj) and b is not a:
                fi2 = self.model.resolve_method(b.cls, "__eq__")
                if fi2 is not None:
                    r = self.call_function(fi2, [b, a], {})
                    if not (isinstance(r, Builtin) and r.name == "NotImplemented"):
                        return r
            return a is b
        if isinstance(b, Obj):
            fi = self.model.resolve_method(b.cls, "__eq__")
            if fi is not None:
                r = self.call_function(fi, [b, a], {})
                if not (isinstance(r, Builtin) and r.name == "NotImplemented"):
                    return r
            return False
        if is_num(a) and is_num(b):
            return self.num_compare("==", a, b)
        if isinstance(a, ComplexVal) or isinstance(b, ComplexVal):
            return False
        if isinstance(a, (list, tuple)) and type(a) is type(b):
            if len(a) != len(b):
                return False
            for x, y in zip(a, b):
                if x is y:
                    continue
                if not self.truth(self.equals(x, y)):
                    return False
            return True
        if isinstance(a, dict) and isinstance(b, dict):
            if len(a) != len(b):
                return False
            for k, v in a.items():
                if k not in b:
                    return False
                if v is b[k]:
                    continue
                if not self.truth(self.equals(v, b[k])):
                    return False
            return True
        if isinstance(a, (set, frozenset)) and isinstance(b, (set, frozenset)):
            return a == b
        if isinstance(a, (ClassRef, BuiltinType, HashVal)):
            return a == b
        if isinstance(a, str) or isinstance(b, str) or a is None or b is None:
            if isinstance(a, str) and isinstance(b, str):
                return str.__eq__(a, b)
            return (a == b) if type(a) is type(b) else False
        if isinstance(a, (FuncInfo, BoundMethod, Closure, ModRef, ExtRef, ExcObj, RegexObj)):
            return a is b
        if type(a) is not type(b):
            return False
        return a is b

    def contains(self, container, item):
        if isinstance(container, dict):
            try:
                return item in container
            except TypeError:
                self.raise_builtin("TypeError", "unhashable type")
        if isinstance(container, (set, frozenset)):
            try:
                return item in container
            except TypeError:
                self.raise_builtin("TypeError", "unhashable type")
        if isinstance(container, (list, tuple)):
            for x in container:
                if x is item or self.truth(self.equals(x, item)):
                    return True
            return False
        if isinstance(container, str):
            if not isinstance(item, str):
                self.raise_builtin("TypeError", "'in <string>' requires string as left operand")
            return item in container
        if isinstance(container, range) and isinstance(item, int):
            return item in container
        if isinstance(container, Obj):
            return self.truth(self.call_dunder(container, "__contains__", [item]))
        self.raise_builtin("TypeError", "argument is not iterable")

    # ------------------------------------------------------------ str / repr / hash
    def to_str(self, v) -> str:
        if isinstance(v, str):
            return v
        if isinstance(v, Obj):
            fi = self.model.resolve_method(v.cls, "__str__") or self.model.resolve_method(v.cls, "__repr__")
            if fi is not None:
                r = self.call_function(fi, [v], {})
                if not isinstance(r, str):
                    self.raise_builtin("TypeError", "__str__ returned non-string")
                return r
            if self.is_exception_class(v.cls):
                args = v.attrs.get("args", ())
                return self.to_str(args[0]) if len(args) == 1 else self.to_repr(tuple(args))
            return f"<{v.cls.name} object>"
        return self.to_repr(v)

    def to_repr(self, v) -> str:
        if isinstance(v, Obj):
            fi = self.model.resolve_method(v.cls, "__repr__")
            if fi is not None:
                r = self.call_function(fi, [v], {})
                if not isinstance(r, str):
                    self.raise_builtin("TypeError", "__repr__ returned non-string")
                return r
            return f"<{v.cls.name} object>"
        if isinstance(v, SymNum):
            if v.conc is not None:
                return repr(v.conc)
            return "<sym:" + str(v.term) + ">"
        if isinstance(v, (int, str)) or v is None:
            return repr(v)
        if isinstance(v, list):
            return "[" + ", ".join(self.to_repr(x) for x in v) + "]"
        if isinstance(v, tuple):
            if len(v) == 1:
                return "(" + self.to_repr(v[0]) + ",)"
            return "(" + ", ".join(self.to_repr(x) for x in v) + ")"
        if isinstance(v, dict):
            return "{" + ", ".join(f"{self.to_repr(k)}: {self.to_repr(x)}" for k, x in v.items()) + "}"
        if isinstance(v, (set, frozenset)):
            self.flags.add("set-iterated")
            return "{" + ", ".join(self.to_repr(x) for x in self.order_set(v)) + "}"
        if isinstance(v, ClassRef):
            return f"<class '{v.ci.name}'>"
        if isinstance(v, ExcObj):
            return f"{v.name}({', '.join(self.to_repr(a) for a in v.args)})"
        return f"<{type(v).__name__}>"

    def hash_key(self, v):
        if isinstance(v, bool):
            return int(v)
        if isinstance(v, int):
            return -2 if v == -1 else v      # CPython: hash(-1) == hash(-2) == -2
        if isinstance(v, SymNum):
            if v.conc is not None:
                c = v.conc
                if isinstance(c, float) and c.is_integer():
                    return -2 if int(c) == -1 else int(c)
                return c
            return ("sym", id(v))
        if isinstance(v, str) or v is None:
            return v
        if isinstance(v, tuple):
            return tuple(self.hash_key(x) for x in v)
        if isinstance(v, frozenset):
            return frozenset(self.hash_key(x) for x in v)
        if isinstance(v, (list, dict, set)):
            self.raise_builtin("TypeError", f"unhashable type: {self.type_name(v)!r}")
        if isinstance(v, Obj):
            has_eq = self.model.resolve_method(v.cls, "__eq__")
            fi = self.model.resolve_method(v.cls, "__hash__")
            if fi is not None:
                r = self.call_function(fi, [v], {})
                if isinstance(r, HashVal):
                    return ("H", r.key)
                if isinstance(r, int):
                    return ("H", r)
                self.raise_builtin("TypeError", "__hash__ method should return an integer")
            if has_eq is not None:
                # a class defining __eq__ without __hash__ is unhashable in Python
                own = any("__eq__" in c.methods and "__hash__" not in c.methods
                          for c in self.model.mro(v.cls))
                if own:
                    self.raise_builtin("TypeError", f"unhashable type: {v.cls.name!r}")
            return ("id", v.oid)
        if isinstance(v, (ClassRef, BuiltinType)):
            return ("type", repr(v))
        if isinstance(v, HashVal):
            return v.key
        return ("id", id(v))

    # ------------------------------------------------------------ builtins
    def call_builtin_type(self, name, args, kwargs):
        if name in BUILTIN_EXCEPTIONS:
            return ExcObj(name, tuple(args), self.where())
        if name == "float":
            if not args:
                return SymNum.of(0.0)
            v = args[0]
            if isinstance(v, bool) or isinstance(v, int):
                try:
                    return SymNum(("c", v), IV.point(float(v)), float(v))
                except OverflowError:
                    self.raise_builtin("OverflowError", "int too large to convert to float")
            if isinstance(v, SymNum):
                if v.conc is not None and not isinstance(v.conc, float):
                    return SymNum(v.term, v.iv, float(v.conc))
                return v
            if isinstance(v, ComplexVal):
                self.raise_builtin("TypeError", "float() argument must be a string or a real number, not 'complex'")
            if isinstance(v, str):
                try:
                    return SymNum.of(float(v))
                except ValueError:
                    self.raise_builtin("ValueError", "could not convert string to float")
            if isinstance(v, Obj):
                return self.call_dunder(v, "__float__", [])
            self.raise_builtin("TypeError", "float() argument must be a string or a real number")
        if name == "int":
            if not args:
                return 0
            v = args[0]
            if isinstance(v, int):
                return int(v)
            if isinstance(v, SymNum) and v.conc is not None:
                try:
                    return int(v.conc)
                except (OverflowError, ValueError):
                    self.raise_builtin("ValueError", "cannot convert float to integer")
            if isinstance(v, str):
                try:
                    return int(v)
                except ValueError:
                    self.raise_builtin("ValueError", "invalid literal for int()")
            if isinstance(v, SymNum):
                return self.quantise(v, "int")
            self.raise_builtin("TypeError", "int() argument must be a string or a real number")
        if name == "str":
            return self.to_str(args[0]) if args else ""
        if name == "bool":
            return self.truth(args[0]) if args else False
        if name == "list":
            return self.iterate(args[0]) if args else []
        if name == "tuple":
            return tuple(self.iterate(args[0])) if args else ()
        if name in ("set", "frozenset"):
            items = self.iterate(args[0]) if args else []
            try:
                s = set(self.hashable(i) for i in items)
            except TypeError:
                self.raise_builtin("TypeError", "unhashable type")
            self.flags.add("set-built")
            return s if name == "set" else frozenset(s)
        if name == "dict":
            d = {}
            if args:
                src = args[0]
                if isinstance(src, dict):
                    d.update(src)
                else:
                    for pair in self.iterate(src):
                        k, v = self.iterate(pair)
                        d[self.hashable(k)] = v
            d.update(kwargs)
            return d
        if name == "type":
            if len(args) == 1:
                return self.getattr(args[0], "__class__")
            raise Unsupported("type() with 3 arguments")
        if name == "object":
            return Obj(self.model.classes.get("object") or _OBJECT_CI(self.model))
        if name == "complex":
            return ComplexVal()
        raise Unsupported(f"call of builtin type {name}")

    def call_builtin(self, name, args, kwargs):
        if name == "isinstance":
            return self.isinstance(args[0], args[1])
        if name == "issubclass":
            a, b = args
            if isinstance(a, ClassRef) and isinstance(b, ClassRef):
                return self.model.is_subclass(a.ci, b.ci.name)
            return a == b
        if name == "len":
            v = args[0]
            if isinstance(v, (list, tuple, dict, set, frozenset, str, range)):
                return len(v)
            if isinstance(v, Obj):
                return self.call_dunder(v, "__len__", [])
            self.raise_builtin("TypeError", f"object of type {self.type_name(v)!r} has no len()")
        if name == "range":
            for a in args:
                if not isinstance(a, int):
                    self.raise_builtin("TypeError", "range() integer argument expected")
            return range(*args)
        if name == "enumerate":
            start = args[1] if len(args) > 1 else kwargs.get("start", 0)
            return OneShot((i, x) for i, x in enumerate(self.iterate(args[0]), start))
        if name == "zip":
            return OneShot(tuple(t) for t in zip(*[self.iterate(a) for a in args]))
        if name == "any":
            for x in self.iterate(args[0]):
                if self.truth(x):
                    return True
            return False
        if name == "all":
            for x in self.iterate(args[0]):
                if not self.truth(x):
                    return False
            return True
        if name == "sum":
            acc = args[1] if len(args) > 1 else kwargs.get("start", 0)
            for x in self.iterate(args[0]):
                acc = self.binop("Add", acc, x)
            return acc
        if name == "round":
            v = args[0]
            nd = args[1] if len(args) > 1 else None
            if isinstance(v, int):
                return round(v, nd) if nd is not None else v
            if isinstance(v, SymNum) and v.conc is not None:
                try:
                    r = round(v.conc, nd) if nd is not None else round(v.conc)
                except (OverflowError, ValueError):
                    self.raise_builtin("OverflowError", "cannot convert float infinity to integer")
                return r if isinstance(r, int) else SymNum.of(r)
            if isinstance(v, SymNum):
                return self.quantise(v, "round")
            self.raise_builtin("TypeError", "type doesn't define __round__ method")
        if name == "repr":
            return self.to_repr(args[0])
        if name == "format":
            return self.format_value(args[0], args[1] if len(args) > 1 else "")
        if name == "sorted":
            items = self.iterate(args[0])
            key = kwargs.get("key")
            rev = self.truth(kwargs.get("reverse", False))
            return self.sort_values(items, key, rev)
        if name == "reversed":
            return OneShot(reversed(self.iterate(args[0])))
        if name == "hash":
            return HashVal(self.hash_key(args[0]))
        if name == "id":
            self.flags.add("id-used")
            v = args[0]
            return v.oid if isinstance(v, Obj) else id(v)
        if name == "abs":
            v = args[0]
            if isinstance(v, int):
                return abs(v)
            if isinstance(v, SymNum):
                s = v.iv.sign()
                if s in ("+", "0"):
                    return v
                if s == "-":
                    return self.neg(v)
                iv = hull([v.iv, v.iv.neg()])
                return SymNum(("abs", v.term), IV(0.0, iv.hi, False, iv.hi_open), None)
            if isinstance(v, Obj):
                return self.call_dunder(v, "__abs__", [])
            self.raise_builtin("TypeError", "bad operand type for abs()")
        if name in ("min", "max"):
            items = self.iterate(args[0]) if len(args) == 1 else list(args)
            if not items:
                if "default" in kwargs:
                    return kwargs["default"]
                self.raise_builtin("ValueError", f"{name}() arg is an empty sequence")
            best = items[0]
            keyf = kwargs.get("key")
            kb = self.call(keyf, [best], {}) if keyf else best
            for x in items[1:]:
                kx = self.call(keyf, [x], {}) if keyf else x
                if self.truth(self.compare("<" if name == "min" else ">", kx, kb)):
                    best, kb = x, kx
            return best
        if name == "print":
            return None
        if name == "callable":
            return isinstance(args[0], (FuncInfo, BoundMethod, Closure, Builtin, ClassRef,
                                        BuiltinType, NativeMethod, ExtRef))
        if name == "getattr":
            if not isinstance(args[1], str):
                self.raise_builtin("TypeError", "attribute name must be string")
            self.flags.add("reflection")
            try:
                return self.getattr(args[0], args[1])
            except InterpRaise as r:
                if len(args) > 2 and self.exc_matches(r.exc, BuiltinType("AttributeError")):
                    return args[2]
                raise
        if name == "hasattr":
            self.flags.add("reflection")
            try:
                self.getattr(args[0], args[1])
                return True
            except InterpRaise as r:
                if self.exc_matches(r.exc, BuiltinType("AttributeError")):
                    return False
                raise
        if name == "setattr":
            self.flags.add("reflection")
            self.setattr(args[0], args[1], args[2])
            return None
        if name == "vars":
            self.flags.add("reflection")
            if args and isinstance(args[0], Obj):
                return args[0].attrs
            raise Unsupported("vars()")
        if name == "map":
            seqs = [self.iterate(a) for a in args[1:]]
            return OneShot(self.call(args[0], list(t), {}) for t in zip(*seqs))
        if name == "filter":
            f = args[0]
            return OneShot(x for x in self.iterate(args[1])
                           if self.truth(self.call(f, [x], {}) if f is not None else x))
        if name == "iter":
            return args[0] if isinstance(args[0], OneShot) else OneShot(self.iterate(args[0]))
        if name == "next":
            seq = args[0]
            if isinstance(seq, list):
                if seq:
                    return seq.pop(0)
                if len(args) > 1:
                    return args[1]
                self.raise_builtin("StopIteration", "")
            raise Unsupported("next() of non-list iterator")
        if name == "divmod":
            return (self.binop("FloorDiv", args[0], args[1]), self.binop("Mod", args[0], args[1]))
        if name == "pow":
            return self.binop("Pow", args[0], args[1])
        if name == "object_init":
            return None
        if name == "super":
            raise Unsupported("super() with arguments")
        raise Unsupported(f"builtin {name}")

    def sort_values(self, items, key, rev):
        keyed = [(self.call(key, [x], {}) if key is not None else x, x) for x in items]
        # insertion sort with interpreted comparison (stable)
        out = []
        for k, x in keyed:
            i = len(out)
            while i > 0 and self.truth(self.compare("<", k, out[i - 1][0])):
                i -= 1
            out.insert(i, (k, x))
        res = [x for _, x in out]
        if rev:
            res.reverse()
        return res

    def isinstance(self, v, t) -> bool:
        if isinstance(t, tuple):
            return any(self.isinstance(v, x) for x in t)
        if isinstance(t, ClassRef):
            return isinstance(v, Obj) and self.model.is_subclass(v.cls, t.ci.name)
        if isinstance(t, BuiltinType):
            n = t.name
            if n == "object":
                return True
            if n in BUILTIN_EXCEPTIONS:
                if isinstance(v, ExcObj) or (isinstance(v, Obj) and self.is_exception_class(v.cls)):
                    return n in self.exc_builtin_chain(v)
                return False
            tn = self.type_name(v)
            if n == "int":
                return tn in ("int", "bool")
            return tn == n
        if isinstance(t, ExtRef):
            if t.name.endswith("Number") or t.name.endswith("Real"):
                return isinstance(v, (int, SymNum))
            return False
        self.raise_builtin("TypeError", "isinstance() arg 2 must be a type or tuple of types")

    # ------------------------------------------------------------ native methods
    def call_native_method(self, recv, name, args, kwargs):
        if name == "__object_eq__":
            return recv is args[0]
        if name == "__object_hash__":
            return HashVal(("id", recv.oid if isinstance(recv, Obj) else id(recv)))
        if isinstance(recv, BuiltinType) and recv.name == "str" and args and isinstance(args[0], str):
            return self.call_native_method(args[0], name, list(args[1:]), kwargs)      # str.lower(s) etc.
        if isinstance(recv, SymNum):
            if name == "is_integer":
                if recv.conc is not None:
                    return float(recv.conc).is_integer()
                return Maybe(f"{recv!r}.is_integer()")
            if name == "__float__":
                return recv
            raise Unsupported(f"float method {name}")
        if isinstance(recv, bool) or isinstance(recv, int):
            if name == "is_integer":
                return True
            if name == "bit_length":
                return recv.bit_length()
            if name == "__index__":
                return recv
            raise Unsupported(f"int method {name}")
        if isinstance(recv, list):
            if name == "append":
                recv.append(args[0]); return None
            if name == "extend":
                recv.extend(self.iterate(args[0])); return None
            if name == "insert":
                recv.insert(args[0], args[1]); return None
            if name == "pop":
                try:
                    return recv.pop(*args)
                except IndexError:
                    self.raise_builtin("IndexError", "pop from empty list")
            if name == "copy":
                return list(recv)
            if name == "reverse":
                recv.reverse(); return None
            if name == "clear":
                recv.clear(); return None
            if name == "sort":
                recv[:] = self.sort_values(list(recv), kwargs.get("key"),
                                           self.truth(kwargs.get("reverse", False)))
                return None
            if name == "index":
                for i, x in enumerate(recv):
                    if x is args[0] or self.truth(self.equals(x, args[0])):
                        return i
                self.raise_builtin("ValueError", "value is not in list")
            if name == "count":
                return sum(1 for x in recv if x is args[0] or self.truth(self.equals(x, args[0])))
            if name == "remove":
                for i, x in enumerate(recv):
                    if x is args[0] or self.truth(self.equals(x, args[0])):
                        del recv[i]
                        return None
                self.raise_builtin("ValueError", "list.remove(x): x not in list")
            raise Unsupported(f"list method {name}")
        if isinstance(recv, tuple):
            if name == "index":
                return self.call_native_method(list(recv), "index", args, kwargs)
            if name == "count":
                return self.call_native_method(list(recv), "count", args, kwargs)
            raise Unsupported(f"tuple method {name}")
        if isinstance(recv, dict):
            try:
                if name == "get":
                    return recv.get(args[0], args[1] if len(args) > 1 else kwargs.get("default"))
                if name == "items":
                    return [(k, v) for k, v in recv.items()]
                if name == "keys":
                    return list(recv.keys())
                if name == "values":
                    return list(recv.values())
                if name == "setdefault":
                    return recv.setdefault(self.hashable(args[0]), args[1] if len(args) > 1 else None)
                if name == "pop":
                    if args[0] in recv:
                        return recv.pop(args[0])
                    if len(args) > 1:
                        return args[1]
                    self.raise_builtin("KeyError", repr(args[0]))
                if name == "update":
                    if args:
                        src = args[0]
                        if isinstance(src, dict):
                            recv.update(src)
                        else:
                            for pair in self.iterate(src):
                                k, v = self.iterate(pair)
                                recv[self.hashable(k)] = v
                    recv.update(kwargs)
                    return None
                if name == "copy":
                    return dict(recv)
                if name == "clear":
                    recv.clear(); return None
                if name == "popitem":
                    if not recv:
                        self.raise_builtin("KeyError", "popitem(): dictionary is empty")
                    return recv.popitem()
            except TypeError:
                self.raise_builtin("TypeError", "unhashable type")
            raise Unsupported(f"dict method {name}")
        if isinstance(recv, (set, frozenset)):
            try:
                if name == "union":
                    out = set(recv)
                    for a in args:
                        out |= set(self.iterate_quiet(a))
                    return out if isinstance(recv, set) else frozenset(out)
                if name == "intersection":
                    out = set(recv)
                    for a in args:
                        out &= set(self.iterate_quiet(a))
                    return out
                if name == "difference":
                    out = set(recv)
                    for a in args:
                        out -= set(self.iterate_quiet(a))
                    return out
                if name == "issubset":
                    return recv <= set(self.iterate_quiet(args[0]))
                if name == "issuperset":
                    return recv >= set(self.iterate_quiet(args[0]))
                if name == "isdisjoint":
                    return recv.isdisjoint(set(self.iterate_quiet(args[0])))
                if name == "copy":
                    return set(recv)
                if isinstance(recv, set):
                    if name == "add":
                        recv.add(self.hashable(args[0])); return None
                    if name == "discard":
                        recv.discard(args[0]); return None
                    if name == "remove":
                        if args[0] not in recv:
                            self.raise_builtin("KeyError", repr(args[0]))
                        recv.remove(args[0]); return None
                    if name == "update":
                        for a in args:
                            recv.update(self.iterate_quiet(a))
                        return None
                    if name == "clear":
                        recv.clear(); return None
                    if name == "pop":
                        if not recv:
                            self.raise_builtin("KeyError", "pop from an empty set")
                        self.flags.add("set-iterated")
                        x = self.order_set(recv)[0]
                        recv.remove(x)
                        return x
            except TypeError:
                self.raise_builtin("TypeError", "unhashable type")
            raise Unsupported(f"set method {name}")
        if isinstance(recv, str):
            if name == "join":
                parts = self.iterate(args[0])
                for p in parts:
                    if not isinstance(p, str):
                        self.raise_builtin("TypeError", "sequence item: expected str instance")
                return recv.join(parts)
            if name == "format":
                return recv.format(*[self.format_value(a, "") for a in args],
                                   **{k: self.format_value(v, "") for k, v in kwargs.items()})
            if name in ("isalnum", "isalpha", "isdigit", "isidentifier", "isnumeric", "islower",
                        "isupper", "isspace", "lower", "upper", "strip", "lstrip", "rstrip",
                        "startswith", "endswith", "split", "replace", "find", "count", "title",
                        "capitalize", "isascii", "isdecimal", "encode", "rsplit", "partition", "index",
                        "removeprefix", "removesuffix", "rpartition", "rfind", "rindex", "zfill", "ljust", "rjust",
                        "center", "casefold", "swapcase", "splitlines", "expandtabs"):
                for a in args:
                    if not isinstance(a, (str, int, tuple)) and a is not None:
                        raise Unsupported(f"str.{name} with abstract argument")
                try:
                    r = getattr(recv, name)(*args)
                except ValueError:
                    self.raise_builtin("ValueError", "substring not found")
                return r
            raise Unsupported(f"str method {name}")
        if isinstance(recv, RegexObj):
            return self.regex_call(recv, name, args)
        if isinstance(recv, BuiltinType):
            if recv.name == "dict" and name == "fromkeys":
                return {self.hashable(k): (args[1] if len(args) > 1 else None) for k in self.iterate(args[0])}
            if recv.name == "float" and name == "is_integer":
                return self.call_native_method(args[0], "is_integer", [], {})
            raise Unsupported(f"{recv.name}.{name}")
        if isinstance(recv, ExcObj):
            raise Unsupported(f"exception method {name}")
        raise Unsupported(f"method {name} of {type(recv).__name__}")

    def iterate_quiet(self, v):
        """iteration whose order cannot matter (feeding a set operation)"""
        had = "set-iterated" in self.flags
        out = self.iterate(v)
        if not had:
            self.flags.discard("set-iterated")
        return out

    def regex_call(self, rx: RegexObj, name, args):
        if name in ("match", "fullmatch", "search"):
            s = args[0]
            if not isinstance(s, str):
                self.raise_builtin("TypeError", "expected string or bytes-like object")
            m = getattr(re.compile(rx.pattern, rx.flags), name)(s)
            return None if m is None else ExtRef("re.Match")
        raise Unsupported(f"regex method {name}")

    # ------------------------------------------------------------ external calls
    def call_ext(self, name, args, kwargs):
        if name.startswith("math."):
            try:
                return self.call_math(name[5:], args, kwargs)
            except ValueError:          # the host libm refused a concrete argument (inf, nan ...): so does Python
                self.raise_builtin("ValueError", "math domain error")
            except OverflowError:
                self.raise_builtin("OverflowError", "math range error")
        if name.startswith("logging."):
            self.warnings.append((name, self.to_str(args[0]) if args else ""))
            return None
        if name.startswith("warnings."):
            self.warnings.append((name, self.to_str(args[0]) if args else ""))
            return None
        if name == "re.compile":
            flags = args[1] if len(args) > 1 else 0
            if not isinstance(args[0], str) or not isinstance(flags, int):
                raise Unsupported("re.compile with non-literal arguments")
            return RegexObj(args[0], flags)
        if name in ("re.match", "re.fullmatch", "re.search"):
            return self.regex_call(RegexObj(args[0]), name[3:], args[1:])
        if name in ("typing.TypeVar", "typing.cast", "typing.NewType"):
            return args[1] if name == "typing.cast" else ExtRef(name)
        if name in ("functools.reduce",):
            f, seq = args[0], self.iterate(args[1])
            it = iter(seq)
            if len(args) > 2:
                acc = args[2]
            else:
                if not seq:
                    self.raise_builtin("TypeError", "reduce() of empty iterable with no initial value")
                acc = next(it)
            for x in it:
                acc = self.call(f, [acc, x], {})
            return acc
        if name == "sys.intern":
            if len(args) != 1 or not isinstance(args[0], str):
                self.raise_builtin("TypeError", "intern() argument must be str")
            import sys as _sys
            return _sys.intern(str(args[0]))      # the canonical (plain) object for this value
        if name.startswith("unicodedata."):
            import unicodedata
            fn = getattr(unicodedata, name.split(".", 1)[1], None)
            if fn is None or not all(isinstance(a, str) for a in args):
                raise Unsupported(f"external call {name}")
            return fn(*args)
        if name in ("copy.copy", "copy.deepcopy"):
            return self.copy_value(args[0], deep=name.endswith("deepcopy"), memo={})
        if name == "math":
            raise Unsupported("call of module")
        raise Unsupported(f"external call {name}")

    def quantise(self, v: SymNum, how: str) -> SymNum:
        """round/int/floor/ceil/trunc of a symbolic real: an integer-valued, piecewise constant
        function of the input -- kept as an opaque term and flagged (C01: never the real value)."""
        self.flags.add("quantised-real")
        lo = v.iv.lo - 1 if v.iv.lo != -math.inf else v.iv.lo
        hi = v.iv.hi + 1 if v.iv.hi != math.inf else v.iv.hi
        return SymNum(("round", v.term), IV(lo, hi, False, False), None)

    def copy_value(self, v, deep: bool, memo: dict):
        if isinstance(v, Obj):
            if id(v) in memo:
                return memo[id(v)]
            o = Obj(v.cls)
            memo[id(v)] = o
            for k, x in v.attrs.items():
                o.attrs[k] = self.copy_value(x, True, memo) if deep else x
            return o
        if isinstance(v, list):
            return [self.copy_value(x, True, memo) for x in v] if deep else list(v)
        if isinstance(v, dict):
            return {k: self.copy_value(x, True, memo) for k, x in v.items()} if deep else dict(v)
        if isinstance(v, set):
            return set(v)
        return v

    def _real(self, v, fname):
        if isinstance(v, bool) or isinstance(v, int):
            try:
                float(v)        # the math module converts its arguments to C doubles
            except OverflowError:
                self.raise_builtin("OverflowError", "int too large to convert to float")
            return SymNum.of(v)
        if isinstance(v, SymNum):
            return v
        if isinstance(v, ComplexVal):
            self.raise_builtin("TypeError", f"must be real number, not complex ({fname})")
        if isinstance(v, ExtRef):
            raise Unsupported(f"value of {v.name} is not modelled (argument of {fname})")
        self.raise_builtin("TypeError", f"must be real number, not {self.type_name(v)} ({fname})")

    def _domain_guard(self, x: SymNum, bad_when, desc) -> None:
        """raise ValueError if x is (or may be, after a fork) in the bad region."""
        r = bad_when(x)
        if r is True:
            self.raise_builtin("ValueError", "math domain error")
        if r is None:
            if self.decide(Maybe(desc)):
                self.raise_builtin("ValueError", "math domain error")

    def call_math(self, fn, args, kwargs):
        if fn == "gcd":
            for a in args:
                if not isinstance(a, int):
                    self.raise_builtin("TypeError", "'float' object cannot be interpreted as an integer")
            return math.gcd(*args)
        if fn in ("floor", "ceil", "trunc"):
            v = self._real(args[0], fn)
            if v.conc is None:
                return self.quantise(v, fn)
            return getattr(math, fn)(v.conc)
        if fn in ("isnan", "isinf", "isfinite"):
            v = self._real(args[0], fn)
            if v.conc is not None:
                return getattr(math, fn)(v.conc)
            return fn == "isfinite"
        if fn == "isclose":
            a, b = self._real(args[0], fn), self._real(args[1], fn)
            if a.conc is not None and b.conc is not None:
                kw = {k: (v.conc if isinstance(v, SymNum) else v) for k, v in kwargs.items()}
                return math.isclose(a.conc, b.conc, **kw)
            self.flags.add("closeness-test")
            return Maybe(f"isclose({a!r}, {b!r})")
        if fn in ("fabs",):
            return self.call_builtin("abs", [self._real(args[0], fn)], {})
        if fn in ("fmod", "remainder"):
            a, b = self._real(args[0], fn), self._real(args[1], fn)
            if a.conc is not None and b.conc is not None:
                if b.conc == 0:
                    self.raise_builtin("ValueError", "math domain error")
                return SymNum.of(getattr(math, fn)(a.conc, b.conc))
            # x - y * trunc(x / y): a piecewise function of the inputs (kept opaque through the quantisation)
            q = self.quantise(self.num_binop("Div", a, b), "trunc" if fn == "fmod" else "round")
            return self.num_binop("Sub", a, self.num_binop("Mult", b, q))
        if fn == "modf":
            v = args[0]
            if isinstance(v, int):          # math.modf converts an int to a C double first
                try:
                    v = float(v)
                except OverflowError:
                    self.raise_builtin("OverflowError", "int too large to convert to float")
                f, i = math.modf(v)
                return (SymNum.of(f), SymNum.of(i))
            x = self._real(v, fn)
            if x.conc is None:
                q = self.quantise(x, "trunc")
                return (self.num_binop("Sub", x, q), self.num_binop("Mult", q, SymNum.of(1.0)))
            f, i = math.modf(x.conc)
            return (SymNum.of(f), SymNum.of(i))
        if fn == "copysign":
            a, b = self._real(args[0], fn), self._real(args[1], fn)
            if a.conc is not None and b.conc is not None:
                return SymNum.of(math.copysign(a.conc, b.conc))
            mag = self.call_builtin("abs", [a], {})
            if b.iv.all_gt(0):
                neg = False
            elif b.iv.all_lt(0):
                neg = True
            else:
                neg = self.decide(Maybe(f"{b!r} < 0 in math.copysign"))
            return self.neg(mag) if neg else mag
        if fn == "pow":
            x, y = self._real(args[0], fn), self._real(args[1], fn)
            r = self.num_binop("Pow", x, y if not (isinstance(args[1], int)) else args[1])
            if isinstance(r, ComplexVal):
                self.raise_builtin("ValueError", "math domain error")
            return r
        x = self._real(args[0], fn)

        def lt0(v):
            if v.iv.all_lt(0):
                return True
            if v.iv.all_ge(0):
                return False
            return None

        def le0(v):
            if v.iv.all_le(0):
                return True
            if v.iv.all_gt(0):
                return False
            return None

        conc = None
        if fn == "sqrt":
            self._domain_guard(x, lt0, f"{x!r} < 0 in math.sqrt")
            if x.conc is not None:
                conc = math.sqrt(x.conc)
            iv = IV(max(x.iv.lo, 0.0), x.iv.hi, x.iv.lo_open and x.iv.lo >= 0, x.iv.hi_open).root(2)
            return SymNum(("sqrt", x.term), IV.point(conc) if conc is not None else iv, conc)
        if fn == "cbrt":
            if x.conc is not None:
                conc = math.cbrt(x.conc) if hasattr(math, "cbrt") else math.copysign(abs(x.conc) ** (1 / 3), x.conc)
            return SymNum(("cbrt", x.term), IV.point(conc) if conc is not None else x.iv.root(3), conc)
        if fn == "exp":
            if x.conc is not None:
                try:
                    conc = math.exp(x.conc)
                except OverflowError:
                    self.raise_builtin("OverflowError", "math range error")
            return SymNum(("exp", x.term), IV.point(conc) if conc is not None else x.iv.exp(), conc)
        if fn in ("log", "log2", "log10"):
            self._domain_guard(x, le0, f"{x!r} <= 0 in math.{fn}")
            base = None
            if fn == "log2":
                base = SymNum.of(2)
            elif fn == "log10":
                base = SymNum.of(10)
            elif len(args) > 1:
                base = self._real(args[1], fn)
            xiv = x.iv if x.iv.all_gt(0) else IV(0.0, x.iv.hi, True, x.iv.hi_open)
            if base is None:
                if x.conc is not None:
                    conc = math.log(x.conc)
                return SymNum(("ln", x.term), IV.point(conc) if conc is not None else xiv.ln(), conc)
            self._domain_guard(base, le0, f"base {base!r} <= 0 in math.log")

            def is1(v):
                if v.iv.is_point() and v.iv.lo == 1:
                    return True
                if not v.iv.contains(1.0):
                    return False
                return None
            r = is1(base)
            if r is True or (r is None and self.decide(Maybe(f"base {base!r} == 1 in math.log"))):
                self.raise_builtin("ZeroDivisionError", "float division by zero")
            if x.conc is not None and base.conc is not None:
                conc = math.log(x.conc, base.conc)
            biv = base.iv if base.iv.all_gt(0) else IV(0.0, base.iv.hi, True, base.iv.hi_open)
            if base.conc is not None and base.conc == math.e:
                iv = xiv.ln()
            else:
                iv = xiv.ln().div(biv.ln())
            return SymNum(("log", x.term, base.term), IV.point(conc) if conc is not None else iv, conc)
        if fn in ("sin", "cos", "tan", "atan", "sinh", "cosh", "tanh", "asin", "acos"):
            if fn not in ("sin", "cos"):
                raise Unsupported(f"math.{fn}")
            if x.conc is not None:
                conc = getattr(math, fn)(x.conc)
            return SymNum((fn, x.term), IV.point(conc) if conc is not None else UNIT, conc)
        raise Unsupported(f"math.{fn}")


def _OBJECT_CI(model):
    raise Unsupported("object()")


class Interpreter(OpsMixin, ExecMixin, Interp):
    pass


def explore(model, thunk, max_paths: int = 64, max_steps: int = 400000, generic_only: bool = False):
    """Run `thunk(interp)` under every decision script.  Yields one outcome per path:
    dict(kind='return'|'raise'|'unsupported'|'limit', value/exc/msg, imprecise, forks, interp)."""
    script = []
    n = 0
    while True:
        it = Interpreter(model, max_steps=max_steps)
        it.generic_only = generic_only
        it.reset_run(script)
        try:
            v = thunk(it)
            out = {"kind": "return", "value": v}
        except InterpRaise as r:
            out = {"kind": "raise", "exc": r.exc}
        except Unsupported as e:
            out = {"kind": "unsupported", "msg": str(e)}
        except StepLimit as e:
            out = {"kind": "limit", "msg": str(e)}
        except RecursionError:
            out = {"kind": "unsupported", "msg": "analyser recursion limit"}
        out["imprecise"] = it.imprecise
        out["forks"] = list(zip(it.fork_descs, it.script))
        out["interp"] = it
        out["flags"] = set(it.flags)
        out["warnings"] = list(it.warnings)
        out["generic_skipped"] = it.generic_skipped
        yield out
        n += 1
        # next script: flip the last True decision that was newly taken
        s = it.script[:it.pos] if it.pos <= len(it.script) else it.script
        while s and s[-1] is False:
            s.pop()
        if not s or n >= max_paths:
            return
        s[-1] = False
        script = s
