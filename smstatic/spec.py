"""Specification tables (the only hand-written oracle; mathematics, not a copy of the code).

An *instance tree* is a nested tuple naming the public constructors:
  ('Variable', name) ('Constant', value) ('Add', [c...]) ('Multiply', [c...])
  ('Minus', l, r) ('Divide', l, r) ('Power', l, r) ('Negation', c) ('Reciprocal', c)
  ('Sine', c) ('Cosine', c) ('NthPower', c, n) ('NthRoot', c, n)
  ('Exponential', c, base) ('Logarithm', c, base)
"""
from __future__ import annotations
import math
from .regions import IV, UNIT
from .algebra import ZERO

UNARY = ("Negation", "Reciprocal", "Sine", "Cosine")
PARAM = ("NthPower", "NthRoot", "Exponential", "Logarithm")
BINARY = ("Minus", "Divide", "Power")
NARY = ("Add", "Multiply")
LEAF = ("Variable", "Constant")
ALL_CLASSES = LEAF + NARY + BINARY + UNARY + PARAM

# documented strict domains (C02), per class, on the children's values
DOMAIN_DOC = {
    "Divide": "right != 0", "Reciprocal": "inner != 0", "Power": "left > 0",
    "NthRoot": "not (n >= 2 and inner == 0) and not (n even and inner < 0)",
    "Logarithm": "inner > 0",
}


def children(tree) -> list:
    k = tree[0]
    if k in LEAF or k == "ConstantSym":
        return []
    if k in NARY:
        return list(tree[1])
    if k in BINARY:
        return [tree[1], tree[2]]
    return [tree[1]]


def variables(tree, acc=None) -> list:
    acc = [] if acc is None else acc
    if tree[0] == "Variable":
        if tree[1] not in acc:
            acc.append(tree[1])
    for c in children(tree):
        variables(c, acc)
    return acc


def size(tree) -> int:
    return 1 + sum(size(c) for c in children(tree))


def show(tree) -> str:
    k = tree[0]
    if k == "Variable":
        return f'Variable("{tree[1]}")'
    if k == "Constant":
        return f"Constant({tree[1]!r})"
    if k == "ConstantSym":
        return f"Constant({tree[2]!r})"
    if k in NARY:
        return f"{k}({', '.join(show(c) for c in tree[1])})"
    if k in BINARY:
        return f"{k}({show(tree[1])}, {show(tree[2])})"
    if k in UNARY:
        return f"{k}({show(tree[1])})"
    if k in ("NthPower", "NthRoot"):
        return f"{k}({show(tree[1])}, n={tree[2]!r})"
    return f"{k}({show(tree[1])}, base={tree[2]!r})"


def num_term(v):
    if isinstance(v, float) and v == math.e:
        return ("e",)
    return ("c", v)


def value_term(tree, leaf=None):
    """Real-arithmetic reading of the tree as an ALGEBRA term.  `leaf(name)` gives the term of
    a variable (default: the hole of the same name)."""
    k = tree[0]
    if k == "Variable":
        return leaf(tree[1]) if leaf else ("h", tree[1])
    if k == "Constant":
        return num_term(tree[1])
    if k == "Add":
        return ("add",) + tuple(value_term(c, leaf) for c in tree[1])
    if k == "Multiply":
        return ("mul",) + tuple(value_term(c, leaf) for c in tree[1])
    a = value_term(tree[1], leaf)
    if k == "Minus":
        return ("add", a, ("neg", value_term(tree[2], leaf)))
    if k == "Divide":
        return ("div", a, value_term(tree[2], leaf))
    if k == "Power":
        return ("pow", a, value_term(tree[2], leaf))
    if k == "Negation":
        return ("neg", a)
    if k == "Reciprocal":
        return ("div", ("c", 1), a)
    if k == "Sine":
        return ("sin", a)
    if k == "Cosine":
        return ("cos", a)
    if k == "NthPower":
        return ("powi", a, int(tree[2]))
    if k == "NthRoot":
        return ("root", a, int(tree[2]))
    if k == "Exponential":
        return ("pow", num_term(tree[2]), a)
    if k == "Logarithm":
        return ("log", a, num_term(tree[2]))
    raise ValueError(k)


# ------------------------------------------------------------------ interval semantics
class Unknown(Exception):
    pass


def eval_iv(tree, val: dict):
    """-> ('ok', IV) | ('undef', class_name, reason) ; raises Unknown when a sign needed for a
    domain decision is not determined by the regions.  `val`: variable -> IV.  A variable
    missing from `val` raises KeyError (callers handle CoordinateMissing separately).
    Strict: every child is evaluated (left to right) before the node's own domain."""
    k = tree[0]
    if k == "Variable":
        return ("ok", val[tree[1]])
    if k == "Constant":
        return ("ok", IV.point(float(tree[1])))
    vals = []
    for c in children(tree):
        r = eval_iv(c, val)
        if r[0] != "ok":
            return r
        vals.append(r[1])
    if k == "Add":
        out = IV.point(0.0)
        for v in vals:
            out = out.add(v)
        return ("ok", out)
    if k == "Multiply":
        out = IV.point(1.0)
        for v in vals:
            out = out.mul(v)
        return ("ok", out)
    a = vals[0]
    if k == "Minus":
        return ("ok", a.sub(vals[1]))
    if k == "Negation":
        return ("ok", a.neg())
    if k in ("Divide", "Reciprocal"):
        d = vals[1] if k == "Divide" else a
        if d.is_point() and d.lo == 0:
            return ("undef", k, "zero denominator")
        if d.contains(0.0):
            raise Unknown(f"{k}: denominator sign undetermined")
        return ("ok", a.div(d) if k == "Divide" else d.recip())
    if k == "Power":
        if a.all_le(0):
            return ("undef", k, "non-positive base")
        if not a.all_gt(0):
            raise Unknown("Power: base sign undetermined")
        return ("ok", a.pow_real(vals[1]))
    if k == "Sine" or k == "Cosine":
        return ("ok", UNIT)
    if k == "NthPower":
        return ("ok", a.pow_int(int(tree[2])))
    if k == "NthRoot":
        n = int(tree[2])
        if n == 1:
            return ("ok", a)
        if a.is_point() and a.lo == 0:
            return ("undef", k, "zero under a root with n >= 2")
        if n % 2 == 0:
            if a.all_lt(0):
                return ("undef", k, "negative under an even root")
            if not a.all_gt(0):
                raise Unknown("NthRoot: sign undetermined")
        elif a.contains(0.0):
            raise Unknown("NthRoot: zero-ness undetermined")
        return ("ok", a.root(n))
    if k == "Exponential":
        b = float(tree[2])
        return ("ok", IV.point(b).pow_real(a) if b != 1 else IV.point(1.0))
    if k == "Logarithm":
        if a.all_le(0):
            return ("undef", k, "non-positive logarithm argument")
        if not a.all_gt(0):
            raise Unknown("Logarithm: sign undetermined")
        b = float(tree[2])
        return ("ok", a.ln().div(IV.point(math.log(b))) if b != math.e else a.ln())
    raise ValueError(k)


# ------------------------------------------------------------------ calculus
def _is_zero(t):
    return t[0] == "c" and t[1] == 0


def _is_one(t):
    return t[0] == "c" and t[1] == 1


def t_add(*ts):
    ts = [t for t in ts if not _is_zero(t)]
    if not ts:
        return ("c", 0)
    if len(ts) == 1:
        return ts[0]
    return ("add",) + tuple(ts)


def t_mul(*ts):
    if any(_is_zero(t) for t in ts):
        return ("c", 0)
    ts = [t for t in ts if not _is_one(t)]
    if not ts:
        return ("c", 1)
    if len(ts) == 1:
        return ts[0]
    return ("mul",) + tuple(ts)


def diff(t, x: str):
    """d t / d hole x, as a term valid wherever t is defined (and differentiable)."""
    h = t[0]
    if h == "h":
        return ("c", 1) if t[1] == x else ("c", 0)
    if h in ("c", "e"):
        return ("c", 0)
    if h == "add":
        return t_add(*[diff(a, x) for a in t[1:]])
    if h == "neg":
        d = diff(t[1], x)
        return ("c", 0) if _is_zero(d) else ("neg", d)
    if h == "mul":
        fs = t[1:]
        terms = []
        for i, f in enumerate(fs):
            d = diff(f, x)
            if _is_zero(d):
                continue
            terms.append(t_mul(d, *[g for j, g in enumerate(fs) if j != i]))
        return t_add(*terms)
    if h == "div":
        a, b = t[1], t[2]
        da, db = diff(a, x), diff(b, x)
        return t_add(t_mul(da, ("div", ("c", 1), b)) if not _is_zero(da) else ("c", 0),
                     ("neg", t_mul(db, ("div", a, ("powi", b, 2)))) if not _is_zero(db) else ("c", 0))
    if h == "powi":
        a, n = t[1], int(t[2])
        da = diff(a, x)
        if n == 0 or _is_zero(da):
            return ("c", 0)
        if n == 1:
            return da
        return t_mul(("c", n), ("powi", a, n - 1), da)
    if h == "pow":
        a, b = t[1], t[2]
        da, db = diff(a, x), diff(b, x)
        parts = []
        if not _is_zero(da):
            parts.append(t_mul(b, ("pow", a, t_add(b, ("c", -1))), da))
        if not _is_zero(db):
            parts.append(t_mul(("ln", a), t, db))
        return t_add(*parts)
    if h == "root":
        a, n = t[1], int(t[2])
        da = diff(a, x)
        if _is_zero(da):
            return ("c", 0)
        if n == 1:
            return da
        return t_mul(da, ("div", t, t_mul(("c", n), a)))
    if h == "ln":
        da = diff(t[1], x)
        return ("c", 0) if _is_zero(da) else ("div", da, t[1])
    if h == "log":
        da = diff(t[1], x)
        return ("c", 0) if _is_zero(da) else ("div", da, t_mul(t[1], ("ln", t[2])))
    if h == "sin":
        da = diff(t[1], x)
        return t_mul(("cos", t[1]), da)
    if h == "cos":
        da = diff(t[1], x)
        return ("c", 0) if _is_zero(da) else ("neg", t_mul(("sin", t[1]), da))
    raise ValueError(h)


def signs_from_valuation(val: dict) -> dict:
    """variable -> '+', '-', '0' from atomic intervals (for ALGEBRA)."""
    out = {}
    for k, iv in val.items():
        s = iv.sign()
        if s is None:
            raise Unknown(f"region of {k} is not sign-atomic")
        out[k] = s
    return out


def leaf_terms(val: dict):
    """Terms the interpreter will see for each variable: point regions are constants."""
    def leaf(name):
        iv = val[name]
        if iv.is_point():
            return ("c", iv.lo)
        return ("h", name)
    return leaf
