"""Abstract values of the interpreter."""
from __future__ import annotations
import math
from .regions import IV


class SymNum:
    """A real number: symbolic term + interval + (when fully determined) concrete value."""
    __slots__ = ("term", "iv", "conc")

    def __init__(self, term, iv: IV, conc=None):
        self.term = term
        self.iv = iv
        if conc is None and iv.lo == iv.hi and not iv.lo_open and not iv.hi_open and iv.lo == iv.lo \
                and iv.lo not in (float("inf"), float("-inf")):
            conc = iv.lo        # the region collapsed to one point (e.g. 0 * h): the value is determined
        self.conc = conc

    @staticmethod
    def of(v) -> "SymNum":
        if isinstance(v, SymNum):
            return v
        if isinstance(v, float) and v == math.e:
            return SymNum(("e",), IV.point(v), v)
        try:
            f = float(v)
        except OverflowError:       # an int beyond the double range
            f = math.inf if v > 0 else -math.inf
        return SymNum(("c", v), IV.point(f), v)

    def __eq__(self, other):
        if isinstance(other, SymNum):
            if self.conc is not None and other.conc is not None:
                return self.conc == other.conc
            return self is other
        if isinstance(other, (int, float)) and self.conc is not None:
            return self.conc == other
        return False

    def __hash__(self):
        return hash(self.conc) if self.conc is not None else id(self)

    def __repr__(self):
        if self.conc is not None:
            return f"~{self.conc!r}"
        return f"<{self.term} in {self.iv}>"


class ComplexVal:
    """Result of a real operation that Python would return as complex."""
    def __repr__(self):
        return "<complex>"


class Maybe:
    """An undecided boolean."""
    __slots__ = ("desc", "generic")

    def __init__(self, desc="", generic=None):
        self.desc = desc
        # for equality tests between reals: the decision value that holds generically
        # (everywhere except on a measure-zero subset of the region); None otherwise
        self.generic = generic

    def negated(self):
        return Maybe("not " + self.desc, None if self.generic is None else (not self.generic))

    def __repr__(self):
        return f"<maybe {self.desc}>"


class Obj:
    """Instance of a class defined in the repository."""
    _next = [0]
    __slots__ = ("cls", "attrs", "oid")

    def __init__(self, cls):
        self.cls = cls
        self.attrs = {}
        Obj._next[0] += 1
        self.oid = Obj._next[0]

    def __repr__(self):
        return f"<{self.cls.name}#{self.oid}>"


class ExcObj:
    """A builtin exception instance (repository exceptions are Obj of their class)."""
    __slots__ = ("name", "args", "origin")

    def __init__(self, name, args=(), origin=""):
        self.name = name
        self.args = args
        self.origin = origin

    def __repr__(self):
        return f"<{self.name} @{self.origin}>"


class ForeignReflecting:
    """A caller's object whose class implements every reflected operator (__radd__, __rmul__, __rpow__ ...)
    and accepts any left operand (a quantity type, collections.UserString, a mock): Python hands it the
    operation whenever the left operand's method returns NotImplemented."""
    def __repr__(self):
        return "<foreign object with permissive reflected operators>"


class OneShot(list):
    """What zip(), map(), filter(), reversed(), enumerate(), iter() and generator expressions return:
    an iterator.  Its items are computed eagerly, but it can be consumed only once -- a second pass over
    the same object sees nothing, as in Python."""
    used = False


class UStr(str):
    """A string handed in by the (modelled) caller.  Every UStr is its own object, as strings
    built at run time are: code that compares names with `is` instead of `==`, or relies on
    interning, sees two equal caller strings as different objects."""
    __slots__ = ()


class ClassRef:
    __slots__ = ("ci",)

    def __init__(self, ci):
        self.ci = ci

    def __eq__(self, o):
        return isinstance(o, ClassRef) and o.ci.key == self.ci.key

    def __hash__(self):
        return hash(("ClassRef", self.ci.key))

    def __repr__(self):
        return f"<class {self.ci.name}>"


class BuiltinType:
    __slots__ = ("name",)

    def __init__(self, name):
        self.name = name

    def __eq__(self, o):
        return isinstance(o, BuiltinType) and o.name == self.name

    def __hash__(self):
        return hash(("BuiltinType", self.name))

    def __repr__(self):
        return f"<type {self.name}>"


class ModRef:
    __slots__ = ("mod",)

    def __init__(self, mod):
        self.mod = mod


class ExtRef:
    __slots__ = ("name",)

    def __init__(self, name):
        self.name = name

    def __repr__(self):
        return f"<ext {self.name}>"


class BoundMethod:
    __slots__ = ("obj", "func")

    def __init__(self, obj, func):
        self.obj = obj
        self.func = func

    def __repr__(self):
        return f"<bound {self.func.qualname} of {self.obj!r}>"


class NativeMethod:
    """Method of a native container / string / number value."""
    __slots__ = ("recv", "name")

    def __init__(self, recv, name):
        self.recv = recv
        self.name = name


class Closure:
    __slots__ = ("node", "env", "frame")

    def __init__(self, node, env, frame):
        self.node = node
        self.env = env
        self.frame = frame


class SuperProxy:
    __slots__ = ("obj", "after")

    def __init__(self, obj, after):
        self.obj = obj
        self.after = after


class HashVal:
    """Abstract result of hash(): a structural key with Python's numeric-hash contract."""
    __slots__ = ("key",)

    def __init__(self, key):
        self.key = key

    def __eq__(self, o):
        return isinstance(o, HashVal) and o.key == self.key

    def __hash__(self):
        return hash(self.key)

    def __repr__(self):
        return f"<hash {self.key!r}>"


class RegexObj:
    __slots__ = ("pattern", "flags")

    def __init__(self, pattern, flags=0):
        self.pattern = pattern
        self.flags = flags


class Builtin:
    __slots__ = ("name",)

    def __init__(self, name):
        self.name = name

    def __repr__(self):
        return f"<builtin {self.name}>"
