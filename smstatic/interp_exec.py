"""Statements, calls and attribute access of the abstract interpreter."""
from __future__ import annotations
import ast

from .interp import (Interp, Env, Frame, Unsupported, InterpRaise, _Return, _Break, _Continue,
                     BUILTIN_EXCEPTIONS)
from .model import FuncInfo
from .values import (SymNum, ComplexVal, Maybe, Obj, ExcObj, ClassRef, BuiltinType, ModRef,
                     ExtRef, BoundMethod, NativeMethod, Closure, SuperProxy, HashVal,
                     RegexObj, Builtin, UStr)


class ExecMixin:
    # ------------------------------------------------------------ statements
    def exec_block(self, stmts, env):
        for st in stmts:
            self.exec_stmt(st, env)

    def exec_stmt(self, st, env):
        self.steps += 1
        if self.stack:
            self.stack[-1].lineno = st.lineno
        tp = type(st)
        m = self._sdisp.get(tp)
        if m is None:
            m = getattr(self, "s_" + tp.__name__, None)
            if m is None:
                raise Unsupported(f"statement {tp.__name__} at {self.where()}")
            self._sdisp[tp] = m
        m(st, env)

    def s_Expr(self, st, env):
        self.eval(st.value, env)

    def s_Pass(self, st, env):
        pass

    def s_Assign(self, st, env):
        v = self.eval(st.value, env)
        for t in st.targets:
            self.assign(t, v, env)

    def s_AnnAssign(self, st, env):
        if st.value is not None:
            self.assign(st.target, self.eval(st.value, env), env)

    def s_AugAssign(self, st, env):
        t = st.target
        opname = type(st.op).__name__
        if isinstance(t, ast.Name):
            cur = self.lookup_name(t.id, env)
            new = self.aug(opname, cur, self.eval(st.value, env))
            env.vars[t.id] = new
        elif isinstance(t, ast.Attribute):
            obj = self.eval(t.value, env)
            cur = self.getattr(obj, t.attr)
            new = self.aug(opname, cur, self.eval(st.value, env))
            self.setattr(obj, t.attr, new)
        elif isinstance(t, ast.Subscript):
            base = self.eval(t.value, env)
            idx = self.eval(t.slice, env)
            cur = self.getitem(base, idx)
            new = self.aug(opname, cur, self.eval(st.value, env))
            if isinstance(base, (list, dict)):
                base[idx] = new
            else:
                raise Unsupported("augmented subscript on non-container")
        else:
            raise Unsupported("augmented assignment target")

    def aug(self, opname, cur, val):
        if isinstance(cur, list) and opname == "Add":
            cur.extend(self.iterate(val))      # in-place, like list.__iadd__
            return cur
        if isinstance(cur, list) and opname == "Mult" and isinstance(val, int):
            cur[:] = cur * val
            return cur
        if isinstance(cur, set) and isinstance(val, (set, frozenset)):
            # set.__ior__ / __iand__ / __isub__ / __ixor__ mutate in place
            if opname == "BitOr":
                cur |= val
                return cur
            if opname == "BitAnd":
                cur &= val
                return cur
            if opname == "Sub":
                cur -= val
                return cur
            if opname == "BitXor":
                cur ^= val
                return cur
        if isinstance(cur, dict) and isinstance(val, dict) and opname == "BitOr":
            cur.update(val)
            return cur
        return self.binop(opname, cur, val)

    def s_Return(self, st, env):
        raise _Return(self.eval(st.value, env) if st.value is not None else None)

    def s_If(self, st, env):
        if self.truth(self.eval(st.test, env)):
            self.exec_block(st.body, env)
        else:
            self.exec_block(st.orelse, env)

    def s_For(self, st, env):
        broke = False
        for item in self.iterate(self.eval(st.iter, env)):
            self.assign(st.target, item, env)
            try:
                self.exec_block(st.body, env)
            except _Break:
                broke = True
                break
            except _Continue:
                continue
        if not broke:
            self.exec_block(st.orelse, env)

    def s_While(self, st, env):
        n = 0
        broke = False
        while self.truth(self.eval(st.test, env)):
            n += 1
            if n > 20000:
                raise Unsupported("while loop exceeds 20000 iterations")
            try:
                self.exec_block(st.body, env)
            except _Break:
                broke = True
                break
            except _Continue:
                continue
        if not broke:
            self.exec_block(st.orelse, env)

    def s_Break(self, st, env):
        raise _Break()

    def s_Continue(self, st, env):
        raise _Continue()

    def s_Raise(self, st, env):
        if st.exc is None:
            cur, ok = env.lookup("__current_exception__")
            if ok:
                raise InterpRaise(cur)
            self.raise_builtin("RuntimeError", "No active exception to reraise")
        v = self.eval(st.exc, env)
        if isinstance(v, ClassRef):
            v = self.instantiate(v.ci, [], {})
        elif isinstance(v, BuiltinType) and v.name in BUILTIN_EXCEPTIONS:
            v = ExcObj(v.name, (), self.where())
        if isinstance(v, Obj):
            if not self.is_exception_class(v.cls):
                self.raise_builtin("TypeError", "exceptions must derive from BaseException")
            v.attrs.setdefault("__origin__", self.where())
            raise InterpRaise(v)
        if isinstance(v, ExcObj):
            if not v.origin:
                v.origin = self.where()
            raise InterpRaise(v)
        self.raise_builtin("TypeError", "exceptions must derive from BaseException")

    def is_exception_class(self, ci) -> bool:
        for c in self.model.mro(ci):
            for b in c.ext_bases:
                if b.split(".")[-1] in BUILTIN_EXCEPTIONS:
                    return True
        return False

    def exc_matches(self, exc, handler_type) -> bool:
        if handler_type is None:
            return True
        if isinstance(handler_type, tuple):
            return any(self.exc_matches(exc, t) for t in handler_type)
        if isinstance(handler_type, ClassRef):
            return isinstance(exc, Obj) and self.model.is_subclass(exc.cls, handler_type.ci.name)
        if isinstance(handler_type, BuiltinType):
            names = self.exc_builtin_chain(exc)
            return handler_type.name in names
        return False

    def exc_builtin_chain(self, exc) -> list:
        if isinstance(exc, ExcObj):
            start = [exc.name]
        else:
            start = []
            for c in self.model.mro(exc.cls):
                for b in c.ext_bases:
                    nm = b.split(".")[-1]
                    if nm in BUILTIN_EXCEPTIONS:
                        start.append(nm)
        out = []
        for nm in start:
            while nm is not None and nm not in out:
                out.append(nm)
                nm = BUILTIN_EXCEPTIONS.get(nm)
        return out

    def s_Try(self, st, env):
        try:
            try:
                self.exec_block(st.body, env)
            except InterpRaise as r:
                for h in st.handlers:
                    ht = self.eval(h.type, env) if h.type is not None else None
                    if self.exc_matches(r.exc, ht):
                        if h.name:
                            env.vars[h.name] = r.exc
                        env.vars["__current_exception__"] = r.exc
                        self.exec_block(h.body, env)
                        break
                else:
                    raise
            else:
                self.exec_block(st.orelse, env)
        finally:
            if st.finalbody:
                self.exec_block(st.finalbody, env)

    def s_Assert(self, st, env):
        if not self.truth(self.eval(st.test, env)):
            self.raise_builtin("AssertionError", "")

    def s_Delete(self, st, env):
        for t in st.targets:
            if isinstance(t, ast.Name):
                env.vars.pop(t.id, None)
            elif isinstance(t, ast.Subscript):
                base = self.eval(t.value, env)
                idx = self.eval(t.slice, env)
                try:
                    del base[idx]
                except (KeyError, IndexError, TypeError):
                    self.raise_builtin("KeyError", "del")
            elif isinstance(t, ast.Attribute):
                obj = self.eval(t.value, env)
                if isinstance(obj, Obj):
                    if self.attr_write_log is not None:
                        self.attr_write_log.append((obj, t.attr, "del"))
                    obj.attrs.pop(t.attr, None)
            else:
                raise Unsupported("del target")

    def s_FunctionDef(self, st, env):
        env.vars[st.name] = Closure(st, env, self.stack[-1])

    def s_Import(self, st, env):
        for al in st.names:
            nm = al.asname or al.name.split(".")[0]
            if al.name in self.model.modules:
                env.vars[nm] = ModRef(self.model.modules[al.name])
            else:
                env.vars[nm] = ExtRef(al.name if al.asname else al.name.split(".")[0])

    def s_ImportFrom(self, st, env):
        for al in st.names:
            full = f"{st.module}.{al.name}"
            nm = al.asname or al.name
            if st.module in self.model.modules:
                v, ok = self.module_global(self.model.modules[st.module], al.name)
                if ok:
                    env.vars[nm] = v
                    continue
            env.vars[nm] = self.ext_value(full)

    def s_Global(self, st, env):
        raise Unsupported("global statement")

    def s_Nonlocal(self, st, env):
        raise Unsupported("nonlocal statement")

    def s_With(self, st, env):
        raise Unsupported("with statement")

    # ------------------------------------------------------------ calls
    def call(self, f, args, kwargs):
        self.tick()
        if not self.stack:
            # a call made by the modelled caller: every string it passes is its own object
            args = [UStr(a) if type(a) is str else a for a in args]
            kwargs = {(UStr(k) if type(k) is str else k): (UStr(v) if type(v) is str else v) for k, v in kwargs.items()}
        if isinstance(f, FuncInfo):
            return self.call_function(f, args, kwargs)
        if isinstance(f, BoundMethod):
            return self.call_function(f.func, [f.obj] + list(args), kwargs)
        if isinstance(f, ClassRef):
            return self.instantiate(f.ci, args, kwargs)
        if isinstance(f, Closure):
            return self.call_closure(f, args, kwargs)
        if isinstance(f, Builtin):
            return self.call_builtin(f.name, args, kwargs)
        if isinstance(f, BuiltinType):
            return self.call_builtin_type(f.name, args, kwargs)
        if isinstance(f, NativeMethod):
            return self.call_native_method(f.recv, f.name, args, kwargs)
        if isinstance(f, ExtRef):
            return self.call_ext(f.name, args, kwargs)
        if isinstance(f, Obj):
            return self.call_dunder(f, "__call__", args, kwargs)
        self.raise_builtin("TypeError", f"object is not callable: {f!r}")

    def bind(self, argspec: ast.arguments, args, kwargs, env: Env, defaults_env: Env, name: str):
        pos = [a.arg for a in argspec.posonlyargs] + [a.arg for a in argspec.args]
        n_posonly = len(argspec.posonlyargs)
        args = list(args)
        kwargs = dict(kwargs)
        bound = {}
        if len(args) > len(pos) and argspec.vararg is None:
            self.raise_builtin("TypeError", f"{name}() takes {len(pos)} positional arguments but "
                                            f"{len(args)} were given")
        for i, p in enumerate(pos):
            if i < len(args):
                bound[p] = args[i]
        extra = args[len(pos):]
        for i, p in enumerate(pos):
            if p in kwargs:
                if i < n_posonly:
                    if argspec.kwarg is not None:
                        continue   # goes to **kwargs
                    self.raise_builtin("TypeError", f"{name}() got positional-only argument "
                                                    f"{p!r} passed as keyword")
                if p in bound:
                    self.raise_builtin("TypeError", f"{name}() got multiple values for argument {p!r}")
                bound[p] = kwargs.pop(p)
        defaults = argspec.defaults
        first_default = len(pos) - len(defaults)
        for i, p in enumerate(pos):
            if p not in bound:
                if i >= first_default:
                    bound[p] = self.eval(defaults[i - first_default], defaults_env)
                else:
                    self.raise_builtin("TypeError", f"{name}() missing required argument {p!r}")
        for a, d in zip(argspec.kwonlyargs, argspec.kw_defaults):
            if a.arg in kwargs:
                bound[a.arg] = kwargs.pop(a.arg)
            elif d is not None:
                bound[a.arg] = self.eval(d, defaults_env)
            else:
                self.raise_builtin("TypeError", f"{name}() missing keyword-only argument {a.arg!r}")
        if argspec.vararg is not None:
            bound[argspec.vararg.arg] = tuple(extra)
        if argspec.kwarg is not None:
            bound[argspec.kwarg.arg] = kwargs
        elif kwargs:
            self.raise_builtin("TypeError", f"{name}() got an unexpected keyword argument "
                                            f"{sorted(kwargs)[0]!r}")
        env.vars.update(bound)

    KNOWN_DECORATORS = {"property", "abstractmethod", "staticmethod", "classmethod", "overload", "override",
                        "final", "lru_cache", "cache", "cached_property", "wraps"}

    def decorator_names(self, fi: FuncInfo) -> set:
        out = set()
        for d in fi.node.decorator_list:
            e = d.func if isinstance(d, ast.Call) else d
            out.add(e.id if isinstance(e, ast.Name) else (e.attr if isinstance(e, ast.Attribute) else "?"))
        return out

    def call_function(self, fi: FuncInfo, args, kwargs):
        if len(self.stack) > 400:
            self.raise_builtin("RecursionError", "maximum recursion depth exceeded")
        if fi.node.decorator_list:
            decos = self.decorator_names(fi)
            unknown = decos - self.KNOWN_DECORATORS
            if unknown:
                raise Unsupported(f"decorator @{sorted(unknown)[0]} on {fi.qualname}")
            if decos & {"lru_cache", "cache", "cached_property"}:
                key = (fi.qualname, tuple(self.hash_key(a) for a in args),
                       tuple(sorted((k, self.hash_key(v)) for k, v in kwargs.items())))
                memo = self.__dict__.setdefault("_memo_decorated", {})
                if key in memo:
                    return memo[key]
                r = self._call_function(fi, args, kwargs)
                memo[key] = r
                return r
        return self._call_function(fi, args, kwargs)

    def _call_function(self, fi: FuncInfo, args, kwargs):
        fr = Frame(fi, fi.module, fi.cls)
        env = Env()
        if self.call_log is not None:
            self.call_log.append((fi.qualname, args[0] if args else None))
        self.stack.append(fr)
        try:
            fr.lineno = fi.node.lineno
            self.bind(fi.node.args, args, kwargs, env, Env(), fi.qualname)
            if self.is_generator(fi.node):
                # generator functions are run eagerly: the yielded values are collected in a list
                # (laziness is decided structurally where it matters, cf. C02.eager)
                env.vars["__yielded__"] = []
                try:
                    self.exec_block(fi.node.body, env)
                except _Return:
                    pass
                return env.vars["__yielded__"]
            try:
                self.exec_block(fi.node.body, env)
            except _Return as r:
                return r.value
            return None
        finally:
            self.stack.pop()

    _gen_cache = {}

    def is_generator(self, fn) -> bool:
        k = id(fn)
        if k not in self._gen_cache:
            found = False
            stack = list(fn.body)
            while stack and not found:
                n = stack.pop()
                if isinstance(n, (ast.Yield, ast.YieldFrom)):
                    found = True
                elif isinstance(n, (ast.FunctionDef, ast.Lambda, ast.ClassDef)):
                    continue
                else:
                    stack.extend(ast.iter_child_nodes(n))
            self._gen_cache[k] = found
        return self._gen_cache[k]

    def call_closure(self, c: Closure, args, kwargs):
        env = Env(c.env)
        self.stack.append(Frame(c.frame.func, c.frame.module, c.frame.cls))
        try:
            self.bind(c.node.args, args, kwargs, env, c.env, "<lambda>")
            if isinstance(c.node, ast.Lambda):
                return self.eval(c.node.body, env)
            try:
                self.exec_block(c.node.body, env)
            except _Return as r:
                return r.value
            return None
        finally:
            self.stack.pop()

    def instantiate(self, ci, args, kwargs):
        obj = Obj(ci)
        if self.is_exception_class(ci):
            obj.attrs["args"] = tuple(args)
            obj.attrs["__origin__"] = self.where()
        for c in self.model.mro(ci):
            for fi in c.methods.values():
                if fi.is_abstract and self.model.resolve_method(ci, fi.name) is fi:
                    self.raise_builtin("TypeError", f"Can't instantiate abstract class {ci.name} "
                                                    f"with abstract method {fi.name}")
        init = self.model.resolve_method(ci, "__init__")
        if init is not None:
            self.call_function(init, [obj] + list(args), kwargs)
        elif (args or kwargs) and not self.is_exception_class(ci):
            self.raise_builtin("TypeError", f"{ci.name}() takes no arguments")
        return obj

    def call_dunder(self, obj: Obj, name, args, kwargs=None):
        fi = self.model.resolve_method(obj.cls, name)
        if fi is None:
            self.raise_builtin("TypeError", f"{obj.cls.name} has no {name}")
        return self.call_function(fi, [obj] + list(args), kwargs or {})

    # ------------------------------------------------------------ attributes
    def getattr(self, base, name):
        if isinstance(base, Obj):
            if name == "__class__":
                return ClassRef(base.cls)
            fi = self.model.resolve_method(base.cls, name)
            if fi is not None and fi.is_property:
                return self.call_function(fi, [base], {})
            if name in base.attrs:
                return base.attrs[name]
            if fi is not None:
                decos = {getattr(d, "id", getattr(d, "attr", None)) for d in fi.node.decorator_list}
                if "staticmethod" in decos:
                    return fi
                if "classmethod" in decos:
                    return BoundMethod(ClassRef(base.cls), fi)
                return BoundMethod(base, fi)
            v, ok = self.class_attr(base.cls, name)
            if ok:
                return v
            if name == "__dict__":
                self.flags.add("reflection")
                return base.attrs
            self.raise_builtin("AttributeError", f"{base.cls.name!r} object has no attribute {name!r}")
        if isinstance(base, ModRef):
            v, ok = self.module_global(base.mod, name)
            if ok:
                return v
            sub = f"{base.mod.name}.{name}"
            if sub in self.model.modules:
                return ModRef(self.model.modules[sub])
            self.raise_builtin("AttributeError", f"module has no attribute {name!r}")
        if isinstance(base, ExtRef):
            return self.ext_value(f"{base.name}.{name}")
        if isinstance(base, ClassRef):
            if name == "__name__":
                return base.ci.name
            fi = self.model.resolve_method(base.ci, name)
            if fi is not None:
                return fi
            v, ok = self.class_attr(base.ci, name)
            if ok:
                return v
            self.raise_builtin("AttributeError", f"type {base.ci.name} has no attribute {name!r}")
        if isinstance(base, SuperProxy):
            mro = self.model.mro(base.obj.cls if isinstance(base.obj, Obj) else base.after)
            names = [c.name for c in mro]
            i = names.index(base.after.name) if base.after.name in names else -1
            for c in mro[i + 1:]:
                if name in c.methods:
                    return BoundMethod(base.obj, c.methods[name])
            if name == "__init__":
                return Builtin("object_init")
            if name == "__eq__":
                return NativeMethod(base.obj, "__object_eq__")
            if name == "__hash__":
                return NativeMethod(base.obj, "__object_hash__")
            self.raise_builtin("AttributeError", f"super object has no attribute {name!r}")
        if name == "__class__":
            return BuiltinType(self.type_name(base))
        if isinstance(base, BuiltinType):
            if name == "__name__":
                return base.name
            return NativeMethod(base, name)
        if isinstance(base, (list, dict, set, frozenset, str, tuple, int, SymNum, RegexObj, ExcObj)):
            if isinstance(base, ExcObj) and name == "args":
                return base.args
            if isinstance(base, SymNum) and name in ("real",):
                return base
            if isinstance(base, SymNum) and name == "imag":
                return 0
            if not isinstance(base, (RegexObj, ExcObj)):
                probe = 1.0 if isinstance(base, SymNum) else base
                if not hasattr(probe, name):
                    self.raise_builtin("AttributeError", f"{self.type_name(base)!r} object has no attribute {name!r}")
            return NativeMethod(base, name)
        if base is None:
            self.raise_builtin("AttributeError", f"'NoneType' object has no attribute {name!r}")
        if isinstance(base, (FuncInfo, BoundMethod, Closure)) and name == "__name__":
            return base.name if isinstance(base, FuncInfo) else "<callable>"
        if isinstance(base, (ComplexVal, HashVal, Maybe, bool)):
            self.raise_builtin("AttributeError", f"object has no attribute {name!r}")
        raise Unsupported(f"attribute {name} of {type(base).__name__}")

    def class_attr(self, ci, name):
        for c in self.model.mro(ci):
            for st in c.class_assigns:
                targets = st.targets if isinstance(st, ast.Assign) else [st.target]
                for t in targets:
                    if isinstance(t, ast.Name) and t.id == name and getattr(st, "value", None) is not None:
                        self.stack.append(Frame(None, c.module, c))
                        try:
                            return self.eval(st.value, Env()), True
                        finally:
                            self.stack.pop()
        return None, False

    def type_name(self, v) -> str:
        if v is None:
            return "NoneType"
        if isinstance(v, bool):
            return "bool"
        if isinstance(v, int):
            return "int"
        if isinstance(v, SymNum):
            return "float"
        if isinstance(v, ComplexVal):
            return "complex"
        if isinstance(v, (FuncInfo, Closure, BoundMethod, Builtin, NativeMethod)):
            return "function"
        if isinstance(v, (ClassRef, BuiltinType)):
            return "type"
        if isinstance(v, ExcObj):
            return v.name
        if isinstance(v, str):
            return "str"
        return type(v).__name__
