"""Call graph over resolved calls (alias table + class table + MRO + receiver typing).

Receiver typing: `self.m()` -> m resolved on the enclosing class and on every subclass
(dynamic dispatch); `super().m()` -> next class in the MRO; `mod.f()` / `f()` -> module
function or class constructor (__init__ chain); `<anything else>.m()` -> every method
named m in the package (name-based over-approximation), plus property getters named m for
attribute reads.  Over-approximate: good for 'X is unreachable from Y' claims.
"""
from __future__ import annotations
import ast
from .model import Model, FuncInfo, ClassInfo


class CallGraph:
    def __init__(self, model: Model):
        self.model = model
        self.edges: dict[str, set] = {}
        self.unresolved: dict[str, list] = {}
        self.by_name: dict[str, list] = {}
        for fi in model.functions.values():
            self.by_name.setdefault(fi.name, []).append(fi)
        for fi in model.functions.values():
            self.edges[fi.qualname] = self._callees(fi)

    def _overrides(self, ci: ClassInfo, name: str) -> list:
        out = []
        for c in self.model.classes.values():
            if self.model.is_subclass(c, ci.name) or self.model.is_subclass(ci, c.name):
                fi = self.model.resolve_method(c, name)
                if fi is not None and fi not in out:
                    out.append(fi)
        return out

    def _ctor_targets(self, ci: ClassInfo) -> list:
        out = []
        for c in self.model.classes.values():
            if self.model.is_subclass(c, ci.name):
                fi = self.model.resolve_method(c, "__init__")
                if fi is not None and fi not in out:
                    out.append(fi)
        return out

    def _callees(self, fi: FuncInfo) -> set:
        m = self.model
        out = set()
        params = fi.params
        selfname = params[0] if (fi.cls is not None and params) else None
        for node in ast.walk(fi.node):
            if isinstance(node, ast.Attribute) and not isinstance(node.ctx, ast.Store):
                # property reads
                for cand in self.by_name.get(node.attr, []):
                    if cand.is_property:
                        out.add(cand.qualname)
            if not isinstance(node, ast.Call):
                continue
            f = node.func
            if isinstance(f, ast.Name):
                r = m.resolve(fi.module, f)
                if r and r[0] == "func":
                    out.add(r[1].qualname)
                elif r and r[0] == "class":
                    out.update(x.qualname for x in self._ctor_targets(r[1]))
                continue
            if isinstance(f, ast.Attribute):
                # super().m()
                if isinstance(f.value, ast.Call) and isinstance(f.value.func, ast.Name) and f.value.func.id == "super" \
                        and fi.cls is not None:
                    mro = m.mro(fi.cls)
                    for c in mro[1:]:
                        if f.attr in c.methods:
                            out.add(c.methods[f.attr].qualname)
                            break
                    continue
                if isinstance(f.value, ast.Name) and f.value.id == selfname and fi.cls is not None:
                    if f.attr == "__class__":
                        continue
                    for t in self._overrides(fi.cls, f.attr):
                        out.add(t.qualname)
                    continue
                r = m.resolve(fi.module, f)
                if r and r[0] == "func":
                    out.add(r[1].qualname)
                    continue
                if r and r[0] == "class":
                    out.update(x.qualname for x in self._ctor_targets(r[1]))
                    continue
                if r and r[0] == "ext":
                    continue
                # self.__class__(...) -> constructors of the class and its subclasses
                if isinstance(f.value, ast.Name) and f.attr == "__class__":
                    continue
                cands = self.by_name.get(f.attr, [])
                if cands:
                    out.update(c.qualname for c in cands)
                else:
                    self.unresolved.setdefault(fi.qualname, []).append(ast.unparse(f))
            elif isinstance(f, ast.Call) or isinstance(f, ast.Subscript):
                continue
        # self.__class__(...) constructor calls
        for node in ast.walk(fi.node):
            if isinstance(node, ast.Call) and isinstance(node.func, ast.Attribute) and node.func.attr == "__class__" \
                    and fi.cls is not None:
                out.update(x.qualname for x in self._ctor_targets(fi.cls))
        # operators on expressions reach the dunders
        for node in ast.walk(fi.node):
            if isinstance(node, ast.BinOp):
                for nm in ("__add__", "__sub__", "__mul__", "__truediv__", "__pow__"):
                    for c in self.by_name.get(nm, []):
                        out.add(c.qualname)
                break
        return out

    def reachable(self, roots) -> set:
        seen = set()
        stack = list(roots)
        while stack:
            q = stack.pop()
            if q in seen:
                continue
            seen.add(q)
            stack.extend(self.edges.get(q, ()))
        return seen

    def path(self, roots, target) -> list:
        """one call path from a root to target (for diagnostics)"""
        from collections import deque
        prev = {}
        dq = deque()
        for r in roots:
            prev[r] = None
            dq.append(r)
        while dq:
            q = dq.popleft()
            if q == target:
                out = []
                while q is not None:
                    out.append(q)
                    q = prev[q]
                return list(reversed(out))
            for n in sorted(self.edges.get(q, ())):
                if n not in prev:
                    prev[n] = q
                    dq.append(n)
        return []
