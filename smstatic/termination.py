"""Termination certificate for the rewrite system (C11).

A rewrite step a -> b (whole expressions, the rewritten sub-term in its context) is
*oriented* when
   mu1(b) <= mu1(a)  and  mu2(b) <= mu2(a)  and  no variable occurs more often in b than in a,
   and ( mu1(b) < mu1(a)  or  mu2(b) < mu2(a)  or  a >_rpo b ),
with   mu1 = 2*#Power + #NthPower + #NthRoot + #Exponential + #Logarithm,
       mu2 = #Minus + #Divide,
and >_rpo the recursive path order with precedence
   Power > NthRoot > NthPower > {Exponential, Logarithm, Sine, Cosine} > Reciprocal > Negation
         > Multiply > Add > Constant > integer numerals (ordered by value) > real numerals (all equivalent),
multiset status for Add/Multiply, lexicographic status (children left to right, parameter last)
for everything else.  Symbol counts are weakly monotone and strictly monotone in the
counted symbols and no rule duplicates a variable, so steps that strictly decrease mu1 or mu2
can happen only finitely often; between them every step is an RPO decrease, and RPO is
well-founded, closed under contexts and substitutions.  Variables of the instance trees
stand for arbitrary sub-expressions, so an oriented instance orients all its substitution
instances.  (Standard rule-removal argument; see DESIGN.md C11.)
"""
from __future__ import annotations
from . import spec

PREC = {"Power": 90, "NthRoot": 80, "NthPower": 70, "Exponential": 60, "Logarithm": 60, "Sine": 60,
        "Cosine": 60, "Reciprocal": 50, "Negation": 40, "Multiply": 30, "Add": 20, "Minus": 15, "Divide": 35,
        "Constant": 10, "#int": 2, "#real": 1}
MULTISET = {"Add", "Multiply"}


def tree_size(t) -> int:
    return 1 + sum(tree_size(c) for c in spec.children(t))


def count(t, names) -> int:
    return (1 if t[0] in names else 0) + sum(count(c, names) for c in spec.children(t))


def mu1(t) -> int:
    return 2 * count(t, ("Power",)) + count(t, ("NthPower", "NthRoot", "Exponential", "Logarithm"))


def mu2(t) -> int:
    return count(t, ("Minus", "Divide"))


def var_counts(t, acc=None) -> dict:
    acc = {} if acc is None else acc
    if t[0] == "Variable":
        acc[t[1]] = acc.get(t[1], 0) + 1
    for c in spec.children(t):
        var_counts(c, acc)
    return acc


def to_term(t):
    """instance tree -> ('head', [args]) with numerals as leaves; variables -> ('?', name)"""
    k = t[0]
    if k == "Variable":
        return ("?", t[1])
    if k in ("Constant", "ConstantSym"):
        return ("Constant", [("#real", [])])
    if k in ("NthPower", "NthRoot"):
        return (k, [to_term(t[1]), ("#int", int(t[2]))])
    if k in ("Exponential", "Logarithm"):
        return (k, [to_term(t[1]), ("#real", [])])
    return (k, [to_term(c) for c in spec.children(t)])


def equiv(s, t) -> bool:
    if s[0] != t[0]:
        return False
    if s[0] == "?":
        return s[1] == t[1]
    if s[0] == "#int":
        return s[1] == t[1]
    if s[0] == "#real":
        return True
    if len(s[1]) != len(t[1]):
        return False
    if s[0] in MULTISET:
        rest = list(t[1])
        for a in s[1]:
            for i, b in enumerate(rest):
                if equiv(a, b):
                    del rest[i]
                    break
            else:
                return False
        return True
    return all(equiv(a, b) for a, b in zip(s[1], t[1]))


def occurs(v, s) -> bool:
    if s[0] == "?":
        return s[1] == v
    if s[0] in ("#int", "#real"):
        return False
    return any(occurs(v, a) for a in s[1])


def gt(s, t, memo=None) -> bool:
    """s >_rpo t"""
    if memo is None:
        memo = {}
    key = (id(s), id(t))
    if key in memo:
        return memo[key]
    r = _gt(s, t, memo)
    memo[key] = r
    return r


def ge(s, t, memo) -> bool:
    return equiv(s, t) or gt(s, t, memo)


def _gt(s, t, memo) -> bool:
    if s[0] == "?":
        return False
    if s[0] == "#int":
        return (t[0] == "#int" and s[1] > t[1]) or t[0] == "#real"
    if s[0] == "#real":
        return False
    if t[0] == "?":
        return occurs(t[1], s)
    # (a) some argument of s is >= t
    for a in s[1]:
        if ge(a, t, memo):
            return True
    if t[0] == "#int" or t[0] == "#real":
        return True       # every constructor is above the numerals
    ps, pt = PREC.get(s[0], 55), PREC.get(t[0], 55)
    if ps > pt:
        return all(gt(s, b, memo) for b in t[1])
    if ps == pt and s[0] == t[0]:
        if not all(gt(s, b, memo) for b in t[1]):
            return False
        if s[0] in MULTISET:
            return multiset_gt(s[1], t[1], memo)
        return lex_gt(s[1], t[1], memo)
    if ps == pt:
        # distinct heads of equal precedence (Exponential/Logarithm/Sine/Cosine): only via (a)
        return False
    return False


def lex_gt(xs, ys, memo) -> bool:
    for a, b in zip(xs, ys):
        if equiv(a, b):
            continue
        return gt(a, b, memo)
    return len(xs) > len(ys)


def multiset_gt(xs, ys, memo) -> bool:
    xs, ys = list(xs), list(ys)
    # cancel equivalent elements
    for a in list(xs):
        for i, b in enumerate(ys):
            if equiv(a, b):
                xs.remove(a)
                del ys[i]
                break
    if not xs and not ys:
        return False
    if not xs:
        return False
    return all(any(gt(a, b, memo) for a in xs) for b in ys)


def check_certificate_step(a, b):
    """-> (oriented?, reason)"""
    va, vb = var_counts(a), var_counts(b)
    for v, n in vb.items():
        if n > va.get(v, 0):
            return False, f"variable {v} is duplicated ({va.get(v, 0)} -> {n} occurrences)"
    m1a, m1b, m2a, m2b = mu1(a), mu1(b), mu2(a), mu2(b)
    if m1b > m1a:
        return False, f"mu1 increases ({m1a} -> {m1b})"
    if m2b > m2a:
        return False, f"mu2 increases ({m2a} -> {m2b})"
    if m1b < m1a or m2b < m2a:
        return True, "mu"
    if gt(to_term(a), to_term(b)):
        return True, "rpo"
    return False, "neither measure decreases and the recursive path order does not orient the step"
