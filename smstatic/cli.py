"""Command line: /verif/check <ID> [--tier quick|thorough] [--replay <file>]"""
from __future__ import annotations
import argparse
import importlib
import json
import os
import sys

from .verdict import run_check

PROPS = [f"C{i:02d}" for i in range(1, 19)]


def main(argv=None) -> int:
    ap = argparse.ArgumentParser(prog="check")
    ap.add_argument("prop")
    ap.add_argument("--tier", default=os.environ.get("VERIF_TIER", "quick"),
                    choices=["quick", "thorough"])
    ap.add_argument("--replay", default=None)
    args = ap.parse_args(argv)
    pid = args.prop.upper()
    if pid not in PROPS:
        print(f"ANALYSIS-ERROR unknown property {pid}")
        return 2
    if args.replay:
        try:
            with open(args.replay, encoding="utf-8") as f:
                w = json.load(f)
            print("replaying (re-deciding the whole property on the current tree); recorded witness:")
            print(json.dumps({k: w.get(k) for k in ("rule", "construct", "where", "witness_class",
                                                     "message", "witness")}, indent=1, default=str))
        except (OSError, ValueError) as e:
            print(f"ANALYSIS-ERROR cannot read replay file: {e}")
            return 2
    try:
        mod = importlib.import_module(f"smstatic.props.{pid.lower()}")
    except ModuleNotFoundError:
        print(f"ANALYSIS-ERROR property {pid} has no check module (listed under not_applicable)")
        return 2
    return run_check(pid, args.tier, lambda rep: mod.check(rep))


if __name__ == "__main__":
    sys.exit(main())
