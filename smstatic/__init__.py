"""smstatic -- static analysis of taylorhummon/smoothmath for the 18 properties in
/verif/properties.jsonl.  Nothing in this package imports or executes smoothmath: the
repository's source is read with `ast` on every run (see /verif/DESIGN.md)."""
