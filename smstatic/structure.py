"""Structural (CFG / syntax-tree) rules shared by several properties."""
from __future__ import annotations
import ast
from typing import Optional

from .model import Model, ClassInfo, FuncInfo, AnalysisError
from .cfg import CFG, Node, node_expr, walk_unconditional, attr_chain, is_generator_consumed_lazily


# ----------------------------------------------------------------------------- fields
class Fields:
    def __init__(self):
        self.child_single: list[str] = []
        self.child_list: list[str] = []
        self.params: list[str] = []
        self.memo: list[str] = []
        self.all_init: dict[str, str] = {}     # field -> class that assigns it in __init__

    @property
    def children(self) -> list[str]:
        return self.child_single + self.child_list


def _is_expression_class(model: Model, mod, node) -> bool:
    r = model.resolve(mod, node)
    return bool(r and r[0] == "class" and model.is_subclass(r[1], "Expression"))


def class_fields(model: Model, ci: ClassInfo) -> Fields:
    """Fields of a class, derived from the __init__ methods along its MRO."""
    f = Fields()
    for c in reversed(model.mro(ci)):
        init = c.methods.get("__init__")
        if init is None:
            continue
        fn = init.node
        selfname = fn.args.args[0].arg if fn.args.args else (fn.args.posonlyargs[0].arg if fn.args.posonlyargs else "self")
        checked = set()          # parameter / loop variable names tested with isinstance(., Expression)
        loop_src = {}            # loop var -> iterated parameter
        for node in ast.walk(fn):
            if isinstance(node, ast.For) and isinstance(node.target, ast.Name) and isinstance(node.iter, ast.Name):
                loop_src[node.target.id] = node.iter.id
            if isinstance(node, ast.Call) and isinstance(node.func, ast.Name) and node.func.id == "isinstance" \
                    and len(node.args) == 2 and isinstance(node.args[0], ast.Name):
                if _is_expression_class(model, c.module, node.args[1]):
                    checked.add(node.args[0].id)
        vararg = fn.args.vararg.arg if fn.args.vararg else None
        # self.F = [] ; self.F.extend(args) / for a in args: self.F.append(a)
        filled = set()
        for node in ast.walk(fn):
            if isinstance(node, ast.Call) and isinstance(node.func, ast.Attribute) and node.func.attr in ("extend", "append") \
                    and isinstance(node.func.value, ast.Attribute) and isinstance(node.func.value.value, ast.Name) \
                    and node.func.value.value.id == selfname and node.args and isinstance(node.args[0], ast.Name):
                a0 = node.args[0].id
                if a0 == vararg or loop_src.get(a0) == vararg:
                    filled.add(node.func.value.attr)
        for node in ast.walk(fn):
            targets = []
            if isinstance(node, ast.Assign):
                targets, value = node.targets, node.value
            elif isinstance(node, ast.AnnAssign) and node.value is not None:
                targets, value = [node.target], node.value
            else:
                continue
            for t in targets:
                if not (isinstance(t, ast.Attribute) and isinstance(t.value, ast.Name) and t.value.id == selfname):
                    continue
                name = t.attr
                f.all_init[name] = c.name
                for lst in (f.child_single, f.child_list, f.params, f.memo):
                    if name in lst:
                        lst.remove(name)
                if isinstance(value, ast.Name) and value.id in checked:
                    f.child_single.append(name)
                elif vararg and any(loop_src.get(v) == vararg for v in checked) and (
                        _wraps_param(value, vararg) or (name in filled and isinstance(value, (ast.List, ast.Call)))):
                    f.child_list.append(name)
                elif isinstance(value, ast.Constant) and value.value in (None, False):
                    f.memo.append(name)
                else:
                    f.params.append(name)
    return f


def _wraps_param(value, pname) -> bool:
    if pname is None:
        return False
    if isinstance(value, ast.Name) and value.id == pname:
        return True
    if isinstance(value, ast.Call) and isinstance(value.func, ast.Name) and value.func.id in ("list", "tuple") \
            and len(value.args) == 1 and isinstance(value.args[0], ast.Name) and value.args[0].id == pname:
        return True
    if isinstance(value, (ast.List, ast.Tuple)) and len(value.elts) == 1 and isinstance(value.elts[0], ast.Starred) \
            and isinstance(value.elts[0].value, ast.Name) and value.elts[0].value.id == pname:
        return True
    if isinstance(value, ast.ListComp) and len(value.generators) == 1 and isinstance(value.generators[0].iter, ast.Name) \
            and value.generators[0].iter.id == pname and isinstance(value.elt, ast.Name) \
            and isinstance(value.generators[0].target, ast.Name) and value.elt.id == value.generators[0].target.id:
        return True
    return False


def self_name(fi: FuncInfo) -> Optional[str]:
    a = fi.node.args
    ps = a.posonlyargs + a.args
    return ps[0].arg if ps else None


# ------------------------------------------------------------------- child-call recognition
def _local_aliases(fn: ast.FunctionDef, selfname: str) -> dict:
    """local name -> attribute chain of self it was assigned from (single assignment only)."""
    counts = {}
    src = {}
    for node in ast.walk(fn):
        if isinstance(node, ast.Assign) and len(node.targets) == 1 and isinstance(node.targets[0], ast.Name):
            nm = node.targets[0].id
            counts[nm] = counts.get(nm, 0) + 1
            ch = attr_chain(node.value)
            if ch and ch[0] == selfname:
                src[nm] = ch
        elif isinstance(node, (ast.AugAssign, ast.AnnAssign)) and isinstance(getattr(node, "target", None), ast.Name):
            counts[node.target.id] = counts.get(node.target.id, 0) + 2
    return {k: v for k, v in src.items() if counts.get(k) == 1}


def receiver_field(expr, selfname, aliases, loopvars) -> Optional[tuple]:
    """If `expr` denotes a child of self, return (field, 'single'|'each').  loopvars maps a
    loop/comprehension variable to the self field list it iterates."""
    ch = attr_chain(expr)
    if ch is None:
        return None
    if ch[0] in aliases and len(ch) == 1:
        ch = aliases[ch[0]]
    if ch[0] == selfname and len(ch) == 2:
        return (ch[1], "single")
    if len(ch) == 1 and ch[0] in loopvars:
        return (loopvars[ch[0]], "each")
    return None


def _iter_field(it_expr, selfname, aliases) -> Optional[str]:
    """self._inners / enumerate(self._inners) / zip(self._inners, ...) -> field name"""
    e = it_expr
    if isinstance(e, ast.Call) and isinstance(e.func, ast.Name) and e.func.id in ("enumerate", "zip", "list", "tuple", "reversed", "iter"):
        for a in e.args:
            r = _iter_field(a, selfname, aliases)
            if r:
                return r
        return None
    ch = attr_chain(e)
    if ch is None:
        return None
    if len(ch) == 1 and ch[0] in aliases:
        ch = aliases[ch[0]]
    if len(ch) == 2 and ch[0] == selfname:
        return ch[1]
    return None


def _target_names(t) -> list:
    if isinstance(t, ast.Name):
        return [t.id]
    if isinstance(t, (ast.Tuple, ast.List)):
        out = []
        for e in t.elts:
            out += _target_names(e)
        return out
    return []


class ChildCalls:
    """For one function: which CFG nodes unconditionally call one of `methods` on which child."""

    def __init__(self, model: Model, fi: FuncInfo, methods: set, owner: ClassInfo, depth: int = 2):
        self.model = model
        self.fi = fi
        self.methods = set(methods)
        self.owner = owner
        self.cfg = CFG(fi.node)
        self.selfname = self_name(fi)
        self.aliases = _local_aliases(fi.node, self.selfname) if self.selfname else {}
        self.hits: dict[str, set] = {}      # field -> node ids
        self.lazy: list = []                 # (field, lineno) evaluations in lazily consumed generators
        self.depth = depth
        self._scan()

    def _scan(self):
        # for-loop bodies: a call on the loop variable inside the body counts for the `for` node
        for n in self.cfg.nodes:
            if n.kind == "for":
                fld = _iter_field(n.ast.iter, self.selfname, self.aliases)
                if fld:
                    lv = {nm: fld for nm in _target_names(n.ast.target)}
                    body_cfg_ok = self._loop_body_always_calls(n.ast, lv)
                    if body_cfg_ok:
                        self.hits.setdefault(fld, set()).add(n.id)
            for expr in node_expr(n):
                self._scan_expr(n, expr, {})

    def _loop_body_always_calls(self, for_node: ast.For, loopvars) -> bool:
        """every path through one iteration of the body (that continues normally) calls the
        method on the loop variable"""
        fake = ast.FunctionDef(name="_body", args=ast.arguments(posonlyargs=[], args=[], kwonlyargs=[],
                               kw_defaults=[], defaults=[]), body=for_node.body, decorator_list=[], lineno=for_node.lineno)
        sub = CFG(fake)
        targets = set()
        for n in sub.nodes:
            for expr in node_expr(n):
                for e in walk_unconditional(expr):
                    if isinstance(e, ast.Call) and isinstance(e.func, ast.Attribute) and e.func.attr in self.methods:
                        r = receiver_field(e.func.value, self.selfname, self.aliases, loopvars)
                        if r and r[1] == "each":
                            targets.add(n.id)
        if not targets:
            return False
        # `break`/`return`/`continue` inside the body that skip the call make it conditional
        for n in sub.nodes:
            if isinstance(n.ast, (ast.Break, ast.Continue)):
                return False
        return sub.all_paths_pass_through(targets)

    def _scan_expr(self, node: Node, expr, loopvars, lazy=False):
        for e in walk_unconditional(expr, include_comprehension_bodies=False):
            if isinstance(e, (ast.ListComp, ast.SetComp, ast.GeneratorExp)) and len(e.generators) == 1 \
                    and not e.generators[0].ifs:
                fld = _iter_field(e.generators[0].iter, self.selfname, self.aliases)
                if fld:
                    lv = dict(loopvars)
                    for nm in _target_names(e.generators[0].target):
                        lv[nm] = fld
                    is_lazy = lazy or (isinstance(e, ast.GeneratorExp) and self._lazily_consumed(expr, e))
                    self._scan_expr(node, e.elt, lv, is_lazy)
                continue
            if isinstance(e, ast.Call):
                if isinstance(e.func, ast.Attribute) and e.func.attr in self.methods:
                    r = receiver_field(e.func.value, self.selfname, self.aliases, loopvars)
                    if r:
                        if lazy:
                            self.lazy.append((r[0], getattr(e, "lineno", 0)))
                        else:
                            self.hits.setdefault(r[0], set()).add(node.id)
                        continue
                # helper method of self that itself evaluates children on all its paths
                if self.depth > 0 and isinstance(e.func, ast.Attribute) and isinstance(e.func.value, ast.Name) \
                        and e.func.value.id == self.selfname and not loopvars:
                    callee = self.model.resolve_method(self.owner, e.func.attr)
                    if callee is not None and callee is not self.fi and not callee.is_abstract:
                        sub = ChildCalls(self.model, callee, self.methods, self.owner, self.depth - 1)
                        for fld in sub.fields_always_visited():
                            self.hits.setdefault(fld, set()).add(node.id)

    def _lazily_consumed(self, root_expr, gen) -> bool:
        for e in ast.walk(root_expr):
            if isinstance(e, ast.Call) and gen in e.args and is_generator_consumed_lazily(e):
                return True
        return False

    def memo_return_nodes(self, memo_fields) -> set:
        out = set()
        for n in self.cfg.nodes:
            if n.kind == "stmt" and isinstance(n.ast, ast.Return) and n.ast.value is not None:
                ch = attr_chain(n.ast.value)
                if ch and len(ch) == 2 and ch[0] == self.selfname and ch[1] in memo_fields:
                    out.add(n.id)
        return out

    def fields_always_visited(self, exempt=()) -> set:
        out = set()
        for fld, nodes in self.hits.items():
            if self.cfg.all_paths_pass_through(set(nodes) | set(exempt)):
                out.add(fld)
        return out

    def skipping_exit(self, fld, exempt=()) -> Optional[int]:
        """line of a normal exit reachable without visiting child `fld` (diagnostic)"""
        blocked = set(self.hits.get(fld, ())) | set(exempt)
        reach = self.cfg.reachable(self.cfg.entry.id, blocked=blocked)
        best = None
        for (p, _lab) in self.cfg.nodes[self.cfg.exit.id].pred:
            if p in reach:
                ln = self.cfg.nodes[p].lineno
                best = ln if best is None else min(best, ln)
        return best


def distinct_methods(model: Model, name: str, classes) -> dict:
    """method FuncInfo -> list of concrete classes resolving to it"""
    out = {}
    for ci in classes:
        fi = model.resolve_method(ci, name)
        if fi is not None and not fi.is_abstract:
            out.setdefault(fi, []).append(ci)
    return out


def check_eager_evaluate(rep, model: Model, rule: str) -> None:
    classes = model.concrete_expression_classes()
    for fi, users in sorted(distinct_methods(model, "_evaluate", classes).items(), key=lambda kv: kv[0].qualname):
        owner = users[0]
        flds = class_fields(model, owner)
        if not flds.children:
            continue
        cc = ChildCalls(model, fi, {"_evaluate"}, owner)
        exempt = cc.memo_return_nodes(set(flds.memo))
        visited = cc.fields_always_visited(exempt)
        for fld in flds.children:
            construct = f"{fi.qualname}[{fld}]"
            lazy = [ln for (f, ln) in cc.lazy if f == fld]
            if fld in visited:
                rep.ok(rule, construct, fi.where, f"every non-memo path evaluates self.{fld} "
                       f"unconditionally (used by {', '.join(c.name for c in users)})")
            elif lazy:
                rep.violation(rule, construct, f"{fi.module.rel}:{lazy[0]}",
                              f"children in self.{fld} are evaluated inside a generator consumed by a "
                              f"short-circuiting any/all/next: evaluation is not eager",
                              witness_class="lazy-generator")
            elif fld in cc.hits:
                ln = cc.skipping_exit(fld, exempt)
                rep.violation(rule, construct, f"{fi.module.rel}:{ln}",
                              f"a normal exit (line {ln}) is reachable without evaluating self.{fld}",
                              witness_class="skipping-path")
            else:
                rep.unknown(rule, construct, fi.where, f"no recognisable evaluation of self.{fld}")


VISIT_METHODS = {"_evaluate", "_numeric_partial", "_compute_numeric_partials"}


def check_must_visit(rep, model: Model, rule: str) -> None:
    """C07.must-visit: every normal exit of a forward/reverse numeric rule has, for every
    child field, evaluated or recursively visited that child unconditionally."""
    classes = model.concrete_expression_classes()
    for mname in ("_numeric_partial", "_compute_numeric_partials"):
        for fi, users in sorted(distinct_methods(model, mname, classes).items(), key=lambda kv: kv[0].qualname):
            owner = users[0]
            flds = class_fields(model, owner)
            if not flds.children:
                continue
            cc = ChildCalls(model, fi, VISIT_METHODS, owner)
            visited = cc.fields_always_visited()
            for fld in flds.children:
                construct = f"{fi.qualname}[{fld}]"
                lazy = [ln for (f, ln) in cc.lazy if f == fld]
                if fld in visited:
                    rep.ok(rule, construct, fi.where,
                           f"every normal exit has evaluated/visited self.{fld} (classes: "
                           f"{', '.join(c.name for c in users)})")
                elif fld in cc.hits:
                    ln = cc.skipping_exit(fld)
                    rep.violation(rule, construct, f"{fi.module.rel}:{ln}",
                                  f"a normal exit (line {ln}) of {fi.qualname} is reachable without evaluating or "
                                  f"visiting self.{fld}: an undefined sub-expression there goes unnoticed",
                                  witness_class="skipping-path")
                elif lazy:
                    rep.violation(rule, construct, f"{fi.module.rel}:{lazy[0]}",
                                  f"self.{fld} is only visited inside a lazily consumed generator",
                                  witness_class="lazy-generator")
                else:
                    rep.unknown(rule, construct, fi.where, f"no recognisable visit of self.{fld}")


def check_routing(rep, model: Model, rule: str) -> None:
    """C06.original-first: every evaluation of a stored symbolic partial (`<...synthetic...>.at(p)`)
    is dominated by `self._original_expression.at(p)` with the same point argument."""
    for cname in ("Partial", "Differential", "Derivative", "LocatedDifferential"):
        if cname not in model.classes:
            raise AnalysisError(f"anchor missing: class {cname}")
    for ci in (model.classes["Partial"], model.classes["Differential"]):
        for fi in ci.methods.values():
            sn = self_name(fi)
            if sn is None:
                continue
            cfg = CFG(fi.node)
            # dominating candidates: nodes that unconditionally call self._original_expression.at(X)
            orig_calls = {}     # node id -> set of argument source strings
            sites = []          # (node id, call, argsrc)
            for n in cfg.nodes:
                for expr in node_expr(n):
                    for e in walk_unconditional(expr):
                        if isinstance(e, ast.Call) and isinstance(e.func, ast.Attribute) and e.func.attr == "at":
                            ch = attr_chain(e.func.value)
                            if ch and ch[0] == sn and len(ch) == 2 and "original" in ch[1]:
                                orig_calls.setdefault(n.id, set()).update(ast.unparse(a) for a in e.args)
                    for e in ast.walk(expr):
                        if isinstance(e, ast.Call) and isinstance(e.func, ast.Attribute) and e.func.attr == "at":
                            ch = attr_chain(e.func.value)
                            symbolic = False
                            if ch and ch[0] == sn and any("synthetic" in part for part in ch[1:]):
                                symbolic = True
                            elif ch and len(ch) == 1 and "synthetic" in ch[0]:
                                symbolic = True
                            if symbolic:
                                sites.append((n.id, e, [ast.unparse(a) for a in e.args]))
            for (nid, call, args) in sites:
                construct = f"{fi.qualname}: {ast.unparse(call)}"
                doms = [d for d, a in orig_calls.items() if d != nid and cfg.dominates(d, nid)
                        and (not args or args[0] in a)]
                if doms:
                    rep.ok(rule, construct, f"{fi.module.rel}:{call.lineno}",
                           "dominated by an evaluation of the original expression at the same point")
                else:
                    rep.violation(rule, construct, f"{fi.module.rel}:{call.lineno}",
                                  "a stored symbolic partial is evaluated without first evaluating the original "
                                  "expression at the same point: the symbolic form may be defined where the "
                                  "original is not", witness_class="not-dominated")


# ------------------------------------------------------------------ C09 structural rules
PROTOCOL_RECURSIVE = {"_evaluate", "_numeric_partial", "_compute_numeric_partials", "_value_formula",
                      "_verify_domain_constraints", "_numeric_partial_formula", "_numeric_partial_formula_left",
                      "_numeric_partial_formula_right"}
TRAVERSALS = {"_evaluate", "_numeric_partial", "_compute_numeric_partials"}


def check_reset_dominance(rep, model: Model, rule: str) -> None:
    """Every *root* call of a traversal (one made outside the protocol's own recursive methods) is
    dominated by <same receiver>._reset_evaluation_cache()."""
    # functions that only ever run *inside* a traversal (the traversal methods themselves and
    # helpers called from nowhere else): calls they make are recursive steps, not root calls
    from .callgraph import CallGraph
    cg = CallGraph(model)
    roots = [q for q, f in model.functions.items() if f.name in TRAVERSALS]
    inside = set(cg.reachable(roots))
    callers = {}
    for q, outs in cg.edges.items():
        for o in outs:
            callers.setdefault(o, set()).add(q)
    changed = True
    while changed:
        changed = False
        for q in list(inside):
            f = model.functions.get(q)
            if f is None or f.name in TRAVERSALS or f.name in PROTOCOL_RECURSIVE:
                continue
            if any(c not in inside for c in callers.get(q, ())):
                inside.discard(q)
                changed = True
    for fi in model.all_functions():
        if fi.name in PROTOCOL_RECURSIVE or fi.is_abstract or fi.qualname in inside:
            continue
        cfg = None
        for n_ast in ast.walk(fi.node):
            if not (isinstance(n_ast, ast.Call) and isinstance(n_ast.func, ast.Attribute)
                    and n_ast.func.attr in TRAVERSALS):
                continue
            if cfg is None:
                cfg = CFG(fi.node)
            recv = ast.unparse(n_ast.func.value)
            site = None
            resets = set()
            for n in cfg.nodes:
                for expr in node_expr(n):
                    for e in ast.walk(expr):
                        if e is n_ast:
                            site = n.id
                    for e in walk_unconditional(expr):
                        if isinstance(e, ast.Call) and isinstance(e.func, ast.Attribute) \
                                and e.func.attr == "_reset_evaluation_cache" and ast.unparse(e.func.value) == recv:
                            resets.add(n.id)
            construct = f"{fi.qualname}: {recv}.{n_ast.func.attr}(...)"
            where = f"{fi.module.rel}:{n_ast.lineno}"
            if site is None:
                rep.unknown(rule, construct, where, "call site not located in the CFG (nested function?)")
            elif any(cfg.dominates(r, site) and r != site for r in resets):
                rep.ok(rule, construct, where, f"dominated by {recv}._reset_evaluation_cache()")
            else:
                rep.violation(rule, construct, where,
                              f"a traversal is started on {recv} without first clearing its value cache on every path: "
                              f"values memoised at another point (or left by a failed call) would be reused",
                              witness_class="reset-missing")


def check_reset_complete(rep, model: Model, rule: str) -> None:
    classes = model.concrete_expression_classes()
    for fi, users in sorted(distinct_methods(model, "_reset_evaluation_cache", classes).items(),
                            key=lambda kv: kv[0].qualname):
        owner = users[0]
        flds = class_fields(model, owner)
        ev = model.resolve_method(owner, "_evaluate")
        sn = self_name(fi)
        memo_written = set()
        if ev is not None:
            esn = self_name(ev)
            for node in ast.walk(ev.node):
                if isinstance(node, (ast.Assign, ast.AugAssign, ast.AnnAssign)):
                    targets = node.targets if isinstance(node, ast.Assign) else [node.target]
                    for t in targets:
                        if isinstance(t, ast.Attribute) and isinstance(t.value, ast.Name) and t.value.id == esn:
                            memo_written.add(t.attr)
        if not flds.children and not memo_written:
            rep.ok(rule, f"{fi.qualname} (leaf)", fi.where, "no children and no value memo", nontrivial=False)
            continue
        cfg = CFG(fi.node)
        for mf_ in sorted(memo_written):
            nodes = set()
            for n in cfg.nodes:
                a = n.ast
                if n.kind == "stmt" and isinstance(a, ast.Assign) and isinstance(a.value, ast.Constant) and a.value.value is None:
                    for t in a.targets:
                        if isinstance(t, ast.Attribute) and isinstance(t.value, ast.Name) and t.value.id == sn and t.attr == mf_:
                            nodes.add(n.id)
            construct = f"{fi.qualname}[{mf_}]"
            if nodes and cfg.all_paths_pass_through(nodes):
                rep.ok(rule, construct, fi.where, f"self.{mf_} is cleared on every path")
            else:
                rep.violation(rule, construct, fi.where,
                              f"_evaluate memoises into self.{mf_} but the reset does not clear it on every path",
                              witness_class="memo-not-cleared")
        cc = ChildCalls(model, fi, {"_reset_evaluation_cache"}, owner)
        visited = cc.fields_always_visited()
        for fld in flds.children:
            construct = f"{fi.qualname}[{fld}]"
            if fld in visited:
                rep.ok(rule, construct, fi.where, f"the reset recurses into self.{fld} on every path")
            else:
                rep.violation(rule, construct, fi.where,
                              f"the reset does not (always) recurse into self.{fld}: values cached below it survive",
                              witness_class="child-not-reset")


REDUCTION_PROTOCOL_PREFIXES = ("_reduce", "_take_reduction_step", "_fully_reduce", "_normalize", "_consolidate", "_rebuild")


def check_no_unreset_state(rep, model: Model, rule: str) -> None:
    """Every instance field that an expression class writes outside its constructor, outside the reset and
    outside the rewriting protocol (i.e. during evaluation or differentiation at a point) is state that
    depends on the point: the class's `_reset_evaluation_cache` (own or inherited through super()) must
    assign it, otherwise it survives into the next query."""
    def self_stores(fi):
        sn = self_name(fi)
        out = {}
        for node in ast.walk(fi.node):
            if isinstance(node, (ast.Assign, ast.AugAssign, ast.AnnAssign)):
                if isinstance(node, ast.AnnAssign) and node.value is None:
                    continue
                targets = node.targets if isinstance(node, ast.Assign) else [node.target]
                for t in targets:
                    for el in (t.elts if isinstance(t, (ast.Tuple, ast.List)) else [t]):
                        if isinstance(el, ast.Attribute) and isinstance(el.value, ast.Name) and el.value.id == sn:
                            out.setdefault(el.attr, node.lineno)
        return out
    n = 0
    for ci in model.concrete_expression_classes():
        mro = model.mro(ci)
        cleared = set()
        for c in mro:
            r = c.methods.get("_reset_evaluation_cache")
            if r is not None:
                cleared |= set(self_stores(r))
        seen_methods = set()
        for c in mro:
            for name, fi in c.methods.items():
                if name in seen_methods:
                    continue
                seen_methods.add(name)
                if name in ("__init__", "_reset_evaluation_cache") or name.startswith(REDUCTION_PROTOCOL_PREFIXES):
                    continue
                for fld, ln in self_stores(fi).items():
                    n += 1
                    construct = f"{ci.name}: {fi.qualname} writes self.{fld}"
                    where = f"{fi.module.rel}:{ln}"
                    if fld in cleared:
                        rep.ok(rule, construct, where, "assigned by the class's _reset_evaluation_cache chain")
                    else:
                        rep.violation(rule, f"{fi.qualname} writes self.{fld}", where,
                                      f"{fi.qualname} stores point-dependent state in self.{fld} (class {ci.name}), which no "
                                      f"_reset_evaluation_cache of that class assigns: it survives into queries at other "
                                      f"points", witness_class=f"unreset field {fld}")
    rep.extra["point_state_stores_examined"] = n


IMMUTABLE_CALLS = {"TypeVar", "compile", "frozenset", "tuple", "int", "float", "str", "bool", "NewType", "getLogger"}


def _immutable_value(v) -> bool:
    if isinstance(v, ast.Constant):
        return True
    if isinstance(v, ast.Tuple):
        return all(_immutable_value(e) for e in v.elts)
    if isinstance(v, ast.UnaryOp):
        return _immutable_value(v.operand)
    if isinstance(v, ast.BinOp):
        return _immutable_value(v.left) and _immutable_value(v.right)
    if isinstance(v, ast.Call):
        f = v.func
        nm = f.id if isinstance(f, ast.Name) else (f.attr if isinstance(f, ast.Attribute) else "")
        return nm in IMMUTABLE_CALLS
    if isinstance(v, (ast.Name, ast.Attribute)):
        return True      # alias of a module-level function/class/constant
    if isinstance(v, ast.Lambda):
        return True
    return False


def check_no_global_state(rep, model: Model, rule: str) -> None:
    for mod in sorted(model.modules.values(), key=lambda m: m.name):
        bad = []
        for st in mod.tree.body:
            if isinstance(st, (ast.Import, ast.ImportFrom, ast.FunctionDef, ast.ClassDef, ast.If)):
                continue
            if isinstance(st, ast.Expr) and isinstance(st.value, ast.Constant):
                continue
            if isinstance(st, (ast.Assign, ast.AnnAssign)):
                v = st.value
                if v is None or _immutable_value(v):
                    continue
                names = [t.id for t in (st.targets if isinstance(st, ast.Assign) else [st.target])
                         if isinstance(t, ast.Name)]
                used = False
                for nm in names:
                    for m2 in model.modules.values():
                        for fn in ast.walk(m2.tree):
                            if not isinstance(fn, (ast.FunctionDef, ast.Lambda)):
                                continue
                            for e in ast.walk(fn):
                                if (isinstance(e, ast.Name) and e.id == nm and m2 is mod) or \
                                        (isinstance(e, ast.Attribute) and e.attr == nm):
                                    used = True
                if not used:
                    continue      # e.g. __all__: a mutable literal no function ever touches
                bad.append((st.lineno, "module-level mutable value: " + ast.unparse(st)[:60]))
                continue
            bad.append((st.lineno, "module-level statement: " + ast.unparse(st)[:60]))
        for node in ast.walk(mod.tree):
            if isinstance(node, (ast.Global, ast.Nonlocal)):
                bad.append((node.lineno, "global/nonlocal statement"))
            if isinstance(node, (ast.FunctionDef, ast.Lambda)):
                a = node.args
                for d in list(a.defaults) + [k for k in a.kw_defaults if k is not None]:
                    if isinstance(d, (ast.List, ast.Dict, ast.Set, ast.ListComp, ast.DictComp, ast.SetComp)) or (
                            isinstance(d, ast.Call) and isinstance(d.func, ast.Name) and d.func.id in ("list", "dict", "set")):
                        bad.append((d.lineno, "mutable default argument"))
            if isinstance(node, ast.ClassDef):
                for st in node.body:
                    if isinstance(st, (ast.Assign, ast.AnnAssign)) and st.value is not None and not _immutable_value(st.value):
                        bad.append((st.lineno, "class-level mutable attribute: " + ast.unparse(st)[:60]))
        if bad:
            for ln, what in bad:
                rep.violation(rule, f"{mod.rel}", f"{mod.rel}:{ln}", f"state that outlives a call: {what}",
                              witness_class=what.split(":")[0])
        else:
            rep.ok(rule, mod.rel, mod.rel, "no module-level mutable state, no global/nonlocal, no mutable defaults",
                   nontrivial=False)


# ------------------------------------------------------------------ field agreement (C12 / C13)
def identity_fields(model: Model, ci: ClassInfo) -> set:
    """fields filled from constructor arguments that identify the object: children and parameters
    (not the derived variable set, not memo / precomputed fields)"""
    f = class_fields(model, ci)
    base = set(class_fields(model, model.cls("Expression")).params) if "Expression" in model.classes else set()
    out = set(f.child_single) | set(f.child_list)
    for p in f.params:
        if p not in base:
            out.add(p)
    return out


def check_field_agreement(rep, model: Model, rule: str, methods, what: str, must_cover: bool) -> None:
    """For every class defining/inheriting the given dunder methods: the fields they read are
    compared with the identity fields and with the memo fields."""
    from .effects import _self_reads, VALUE_CLASSES
    for ci in sorted(model.classes.values(), key=lambda c: c.name):
        if not (model.is_subclass(ci, "Expression") or ci.name in VALUE_CLASSES):
            continue
        if model.is_subclass(ci, "Expression") and not model.is_concrete(ci):
            continue
        f = class_fields(model, ci)
        init_fields = set(f.all_init)
        ident = identity_fields(model, ci)
        # derivative objects: identity = what __eq__ reads among constructor-filled fields
        for mname in methods:
            m = model.resolve_method(ci, mname)
            if m is None:
                continue
            reads = _self_reads(model, ci, m) & init_fields
            memo = reads & set(f.memo)
            construct = f"{ci.name}.{mname}"
            if memo:
                rep.violation(rule, construct, m.where,
                              f"{what} of {ci.name} reads the memo field(s) {sorted(memo)}: the result would change when the "
                              f"object is evaluated or simplified", witness_class=f"memo {sorted(memo)[0]}")
                continue
            if must_cover and model.is_subclass(ci, "Expression"):
                missing = ident - reads
                if missing:
                    rep.violation(rule, construct, m.where,
                                  f"{what} of {ci.name} ignores the identity field(s) {sorted(missing)} "
                                  f"(constructor arguments that distinguish objects)", witness_class=f"missing {sorted(missing)[0]}")
                    continue
            rep.ok(rule, construct, m.where, f"reads {sorted(reads)}")


def check_hash_subset_of_eq(rep, model: Model, rule: str) -> None:
    from .effects import _self_reads, VALUE_CLASSES
    for ci in sorted(model.classes.values(), key=lambda c: c.name):
        if not (model.is_subclass(ci, "Expression") or ci.name in VALUE_CLASSES):
            continue
        e = model.resolve_method(ci, "__eq__")
        h = model.resolve_method(ci, "__hash__")
        if e is None:
            continue
        if h is None:
            rep.violation(rule, f"{ci.name}.__hash__", ci.where, f"{ci.name} defines __eq__ but no __hash__ (unhashable)",
                          witness_class="no-hash")
            continue
        init_fields = set(class_fields(model, ci).all_init)
        er = _self_reads(model, ci, e) & init_fields
        hr = _self_reads(model, ci, h) & init_fields
        extra = hr - er
        if extra:
            rep.violation(rule, f"{ci.name}.__hash__", h.where,
                          f"the hash of {ci.name} depends on {sorted(extra)}, which equality ignores: equal objects can hash "
                          f"differently", witness_class=f"hash-extra {sorted(extra)[0]}")
        else:
            rep.ok(rule, f"{ci.name}.__hash__", h.where, f"hash reads {sorted(hr)} within what == compares {sorted(er)}")


def check_no_value_identity(rep, model: Model, rule: str) -> None:
    """`is` / `is not` between *values held in fields or returned by calls* (names, numbers, parameters):
    whether two equal strings or numbers are one object is an accident of interning, so the answer of
    the comparison is not determined by the values.  Allowed: comparison with None/True/False/
    NotImplemented/Ellipsis; two plain names (an object-identity fast path such as `other is self`); and a
    fast path `a is b or a == b` with the same operands."""
    singles = (type(None), bool, type(Ellipsis))
    n = 0
    for fi in model.all_functions():
        parents = {}
        for node in ast.walk(fi.node):
            for c in ast.iter_child_nodes(node):
                parents[c] = node
        for node in ast.walk(fi.node):
            if not isinstance(node, ast.Compare):
                continue
            operands = [node.left] + list(node.comparators)
            for i, op in enumerate(node.ops):
                if not isinstance(op, (ast.Is, ast.IsNot)):
                    continue
                a, b = operands[i], operands[i + 1]
                n += 1

                def single(x):
                    return (isinstance(x, ast.Constant) and isinstance(x.value, singles)) or \
                        (isinstance(x, ast.Name) and x.id in ("None", "NotImplemented", "Ellipsis"))
                construct = f"{fi.qualname}: {ast.unparse(node)}"
                where = f"{fi.module.rel}:{node.lineno}"
                if single(a) or single(b):
                    rep.ok(rule, construct, where, "comparison with a singleton", nontrivial=False)
                    continue
                if isinstance(a, ast.Name) and isinstance(b, ast.Name):
                    rep.ok(rule, construct, where, "identity of two objects held in plain names (fast path)", nontrivial=False)
                    continue

                def class_object(x):
                    # type(v), v.__class__, or a name that resolves to a class: classes are singletons
                    if isinstance(x, ast.Call) and isinstance(x.func, ast.Name) and x.func.id == "type" and len(x.args) == 1:
                        return True
                    if isinstance(x, ast.Attribute) and x.attr == "__class__":
                        return True
                    r = model.resolve(fi.module, x) if isinstance(x, (ast.Name, ast.Attribute)) else None
                    return bool(r and r[0] == "class")
                if class_object(a) and class_object(b):
                    rep.ok(rule, construct, where, "identity of two class objects", nontrivial=False)
                    continue
                par = parents.get(node)
                backed = False
                if isinstance(par, ast.BoolOp) and isinstance(par.op, ast.Or) and isinstance(op, ast.Is):
                    da, db = ast.dump(a), ast.dump(b)
                    for other in par.values:
                        if isinstance(other, ast.Compare) and len(other.ops) == 1 and isinstance(other.ops[0], ast.Eq) and \
                                {ast.dump(other.left), ast.dump(other.comparators[0])} == {da, db}:
                            backed = True
                if backed:
                    rep.ok(rule, construct, where, "identity fast path backed by == on the same operands")
                    continue
                rep.violation(rule, construct, where,
                              f"`{ast.unparse(node)}` compares values by object identity: two equal names or numbers "
                              f"(e.g. strings built at run time) need not be the same object, so the outcome is not "
                              f"determined by the values", witness_class=f"identity comparison in {fi.qualname}")
    rep.extra["identity_comparisons_examined"] = n


REFLECTED = ["__radd__", "__rsub__", "__rmul__", "__rtruediv__", "__rpow__", "__rfloordiv__", "__rmod__",
             "__iadd__", "__isub__", "__imul__", "__itruediv__", "__ipow__", "__pos__", "__abs__", "__float__",
             "__int__", "__bool__", "__index__", "__coerce__"]


def check_no_coercing_dunders(rep, model: Model, rule: str) -> None:
    bad = []
    for ci in model.subclasses("Expression"):
        for nm in REFLECTED:
            if nm in ci.methods:
                bad.append((ci, nm))
    for ci, nm in bad:
        rep.violation(rule, f"{ci.name}.{nm}", ci.methods[nm].where,
                      f"{ci.name} defines {nm}: numbers/foreign operands would be coerced instead of rejected",
                      witness_class=nm)
    if not bad:
        rep.ok(rule, "Expression hierarchy", "", "no reflected, in-place or numeric-conversion dunders are defined",
               nontrivial=False)


def check_coordinate_missing_source(rep, model: Model, rule: str) -> None:
    """CoordinateMissing is raised in exactly one function, which is called only with the name of
    the variable being evaluated."""
    raisers = []
    for fi in model.all_functions():
        for node in ast.walk(fi.node):
            if isinstance(node, ast.Raise) and node.exc is not None:
                e = node.exc.func if isinstance(node.exc, ast.Call) else node.exc
                r = model.resolve(fi.module, e)
                if r and r[0] == "class" and r[1].name == "CoordinateMissing":
                    raisers.append((fi, node.lineno))
    if not raisers:
        rep.unknown(rule, "CoordinateMissing", "", "no raise of CoordinateMissing found (anchor moved)")
        return
    names = {fi.qualname for fi, _ in raisers}
    for fi, ln in raisers:
        rep.ok(rule, f"{fi.qualname}: raise CoordinateMissing", f"{fi.module.rel}:{ln}", "source of the error", nontrivial=False)
    # callers of the raising function(s)
    for q in sorted(names):
        target = model.functions[q]
        for fi in model.all_functions():
            for node in ast.walk(fi.node):
                if isinstance(node, ast.Call) and isinstance(node.func, ast.Attribute) and node.func.attr == target.name \
                        and fi.qualname != q:
                    args = [ast.unparse(a) for a in node.args]
                    sn = self_name(fi)
                    ok = fi.cls is not None and fi.cls.name == "Variable" and len(args) == 1 and args[0].startswith(f"{sn}.")
                    construct = f"{fi.qualname}: {ast.unparse(node)[:60]}"
                    if ok:
                        rep.ok(rule, construct, f"{fi.module.rel}:{node.lineno}",
                               "the only lookup is of the evaluated variable's own name")
                    else:
                        rep.violation(rule, construct, f"{fi.module.rel}:{node.lineno}",
                                      f"{target.qualname} (which raises CoordinateMissing) is also called from {fi.qualname} with "
                                      f"{args}: a coordinate other than that of an occurring variable may be demanded",
                                      witness_class=f"extra-lookup {fi.qualname}")
