"""Interval domain with open/closed endpoints, used as the region component of abstract
numeric values.  Every library guard compares a real with a literal (0, 1, ...), so when
the symbolic leaves range over the atoms of the partition induced by those literals the
branch decisions computed here are exact; compound values are over-approximated soundly
(a comparison that an interval cannot decide is reported as undecided, never guessed).
"""
from __future__ import annotations
import math
from dataclasses import dataclass

INF = math.inf


@dataclass(frozen=True)
class IV:
    lo: float
    hi: float
    lo_open: bool = False
    hi_open: bool = False

    # ---------------------------------------------------------------- basics
    @staticmethod
    def point(v: float) -> "IV":
        return IV(float(v), float(v), False, False)

    @staticmethod
    def top() -> "IV":
        return IV(-INF, INF, True, True)

    def is_point(self) -> bool:
        return self.lo == self.hi and not self.lo_open and not self.hi_open

    def contains(self, v: float) -> bool:
        if v < self.lo or v > self.hi:
            return False
        if v == self.lo and self.lo_open:
            return False
        if v == self.hi and self.hi_open:
            return False
        return True

    def is_empty(self) -> bool:
        return self.lo > self.hi or (self.lo == self.hi and (self.lo_open or self.hi_open))

    # relation of the whole interval to a constant
    def all_gt(self, v: float) -> bool:
        return self.lo > v or (self.lo == v and self.lo_open)

    def all_ge(self, v: float) -> bool:
        return self.lo >= v

    def all_lt(self, v: float) -> bool:
        return self.hi < v or (self.hi == v and self.hi_open)

    def all_le(self, v: float) -> bool:
        return self.hi <= v

    def sign(self):
        """'+', '-', '0' or None (mixed)."""
        if self.is_point() and self.lo == 0:
            return "0"
        if self.all_gt(0):
            return "+"
        if self.all_lt(0):
            return "-"
        return None

    def nonzero(self) -> bool:
        return not self.contains(0.0)

    def __repr__(self):
        a = "(" if self.lo_open else "["
        b = ")" if self.hi_open else "]"
        return f"{a}{self.lo:g},{self.hi:g}{b}"

    # ---------------------------------------------------------------- arithmetic
    def neg(self) -> "IV":
        return IV(-self.hi, -self.lo, self.hi_open, self.lo_open)

    def add(self, o: "IV") -> "IV":
        return IV(_add(self.lo, o.lo, -INF), _add(self.hi, o.hi, INF),
                  self.lo_open or o.lo_open, self.hi_open or o.hi_open)

    def sub(self, o: "IV") -> "IV":
        return self.add(o.neg())

    def _parts(self):
        """split into (negative part, has_zero, positive part) as intervals / None."""
        negp = posp = None
        if self.lo < 0:
            hi = min(self.hi, 0.0)
            hi_open = True if self.hi >= 0 else self.hi_open
            negp = IV(self.lo, hi, self.lo_open, hi_open)
        if self.hi > 0:
            lo = max(self.lo, 0.0)
            lo_open = True if self.lo <= 0 else self.lo_open
            posp = IV(lo, self.hi, lo_open, self.hi_open)
        return negp, self.contains(0.0), posp

    @staticmethod
    def _mul_pos(a: "IV", b: "IV") -> "IV":
        # both strictly positive intervals
        lo = a.lo * b.lo if (a.lo != 0 and b.lo != 0) else 0.0
        lo_open = a.lo_open or b.lo_open or lo == 0.0
        if a.hi == INF or b.hi == INF:
            hi, hi_open = INF, True
        else:
            hi, hi_open = a.hi * b.hi, a.hi_open or b.hi_open
        return IV(lo, hi, lo_open, hi_open)

    def mul(self, o: "IV") -> "IV":
        an, az, ap = self._parts()
        bn, bz, bp = o._parts()
        pieces = []
        if ap and bp:
            pieces.append(IV._mul_pos(ap, bp))
        if an and bn:
            pieces.append(IV._mul_pos(an.neg(), bn.neg()))
        if ap and bn:
            pieces.append(IV._mul_pos(ap, bn.neg()).neg())
        if an and bp:
            pieces.append(IV._mul_pos(an.neg(), bp).neg())
        if az or bz:
            pieces.append(IV.point(0.0))
        return hull(pieces)

    def recip(self) -> "IV":
        """1/x for an interval that does not contain 0 and is single-signed."""
        s = self.sign()
        if s == "+":
            lo = 0.0 if self.hi == INF else 1.0 / self.hi
            lo_open = True if self.hi == INF else self.hi_open
            if self.lo == 0:
                hi, hi_open = INF, True
            else:
                hi, hi_open = 1.0 / self.lo, self.lo_open
            return IV(lo, hi, lo_open, hi_open)
        if s == "-":
            return self.neg().recip().neg()
        return IV.top()

    def div(self, o: "IV") -> "IV":
        if o.sign() in ("+", "-"):
            return self.mul(o.recip())
        return IV.top()

    def pow_int(self, n: int) -> "IV":
        if n == 0:
            return IV.point(1.0)
        if n < 0:
            base = self.pow_int(-n)
            return base.recip() if base.sign() in ("+", "-") else IV.top()
        if n % 2 == 1:
            return IV(_pw(self.lo, n), _pw(self.hi, n), self.lo_open, self.hi_open)
        # even
        an, az, ap = self._parts()
        pieces = []
        if ap:
            pieces.append(IV(_pw(ap.lo, n), _pw(ap.hi, n), ap.lo_open, ap.hi_open))
        if an:
            m = an.neg()
            pieces.append(IV(_pw(m.lo, n), _pw(m.hi, n), m.lo_open, m.hi_open))
        if az:
            pieces.append(IV.point(0.0))
        return hull(pieces)

    def exp(self) -> "IV":
        return IV(_exp(self.lo), _exp(self.hi), self.lo_open or self.lo == -INF,
                  self.hi_open or self.hi == INF)

    def ln(self) -> "IV":
        """for strictly positive intervals"""
        lo = -INF if self.lo <= 0 else math.log(self.lo)
        hi = INF if self.hi == INF else math.log(self.hi)
        return IV(lo, hi, self.lo_open or lo == -INF, self.hi_open or hi == INF)

    def pow_real(self, e: "IV") -> "IV":
        """x ** y for strictly positive x"""
        return self.ln().mul(e).exp()

    def root(self, n: int) -> "IV":
        """real n-th root, sign preserving for odd n; for even n the interval must be >= 0"""
        def r(v):
            if v == INF:
                return INF
            if v == -INF:
                return -INF
            return math.copysign(abs(v) ** (1.0 / n), v)
        return IV(r(self.lo), r(self.hi), self.lo_open, self.hi_open)


def _add(a, b, default):
    if (a == INF and b == -INF) or (a == -INF and b == INF):
        return default
    return a + b


def _pw(v, n):
    if v in (INF, -INF):
        return v if n % 2 == 1 else INF
    try:
        return float(v) ** n
    except OverflowError:
        return INF if (v > 0 or n % 2 == 0) else -INF


def _exp(v):
    if v == -INF:
        return 0.0
    if v == INF:
        return INF
    try:
        return math.exp(v)
    except OverflowError:
        return INF


def hull(pieces) -> IV:
    pieces = [p for p in pieces if p is not None]
    if not pieces:
        return IV.top()
    lo = min(p.lo for p in pieces)
    hi = max(p.hi for p in pieces)
    lo_open = all(p.lo_open for p in pieces if p.lo == lo)
    hi_open = all(p.hi_open for p in pieces if p.hi == hi)
    return IV(lo, hi, lo_open, hi_open)


UNIT = IV(-1.0, 1.0, False, False)


def atoms_for(split_points) -> list[IV]:
    """Atoms of the partition of the real line induced by the given split points:
    (-inf,p0), {p0}, (p0,p1), {p1}, ..., (pk,inf)."""
    pts = sorted(set(float(p) for p in split_points))
    out = []
    prev = -INF
    for p in pts:
        out.append(IV(prev, p, True, True))
        out.append(IV.point(p))
        prev = p
    out.append(IV(prev, INF, True, True))
    return out


def representative(iv: IV) -> float:
    """A well-conditioned point of the interval (for the numeric refutation step only)."""
    if iv.is_point():
        return iv.lo
    lo, hi = iv.lo, iv.hi
    if lo == -INF and hi == INF:
        return 0.7
    if lo == -INF:
        return hi - 1.3 if hi != 0 else -1.7
    if hi == INF:
        return lo + 1.3 if lo != 0 else 1.7
    return lo + (hi - lo) * 0.37


def samples_in(iv: IV, k: int = 3) -> list:
    """k well-conditioned points of the interval (numeric refutation only)."""
    if iv.is_point():
        return [iv.lo] * k
    lo, hi = iv.lo, iv.hi
    fr = [0.37, 0.61, 0.23, 0.83, 0.47]
    out = []
    for i in range(k):
        f = fr[i % len(fr)]
        if lo == -INF and hi == INF:
            out.append([-1.7, 0.6, 2.3, -0.4, 1.1][i % 5])
        elif lo == -INF:
            out.append(hi - (0.4 + 2.1 * f) if hi != 0 else -(0.3 + 2.7 * f))
        elif hi == INF:
            out.append(lo + (0.4 + 2.1 * f) if lo != 0 else (0.3 + 2.7 * f))
        else:
            out.append(lo + (hi - lo) * f)
    return out
