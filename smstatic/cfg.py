"""Statement-level control-flow graph for the statement kinds the package uses.

Nodes are simple statements and branch tests.  A boolean operator inside an `if`/`while`
test is expanded into nested test nodes, so on the true successor of `a and b` both
operands are known to have been evaluated and to hold.  Every `raise` goes to the handler
entry of an enclosing `try` (if any handler exists) or to RAISE_EXIT; statements inside a
`try` body additionally get an 'exc' edge to the handlers.  Normal termination (return or
fall-through) goes to EXIT.
"""
from __future__ import annotations
import ast
from dataclasses import dataclass, field
from typing import Optional, Iterable, Callable


@dataclass
class Node:
    id: int
    kind: str                      # entry | exit | raise_exit | stmt | test | for | handler
    ast: Optional[ast.AST] = None
    negated: bool = False          # test nodes: condition was under an odd number of `not`
    succ: list = field(default_factory=list)   # (node_id, label)
    pred: list = field(default_factory=list)

    @property
    def lineno(self) -> int:
        return getattr(self.ast, "lineno", 0)

    def __repr__(self):
        src = ast.unparse(self.ast)[:50] if self.ast is not None else ""
        return f"<{self.id}:{self.kind} L{self.lineno} {src}>"


class CFG:
    def __init__(self, fn: ast.FunctionDef):
        self.fn = fn
        self.nodes: list[Node] = []
        self.entry = self._new("entry")
        self.exit = self._new("exit")
        self.raise_exit = self._new("raise_exit")
        self._handlers: list[int] = []       # stack of handler-entry node ids
        self._loops: list[tuple[int, int]] = []   # (continue target, break target placeholder list)
        self._break_lists: list[list[int]] = []
        ends = self._block(fn.body, [(self.entry.id, None)])
        for (nid, lab) in ends:
            self._edge(nid, self.exit.id, lab)
        self._dom: Optional[dict[int, set[int]]] = None

    # ------------------------------------------------------------------ build
    def _new(self, kind, node=None, negated=False) -> Node:
        n = Node(len(self.nodes), kind, node, negated)
        self.nodes.append(n)
        return n

    def _edge(self, a: int, b: int, label=None) -> None:
        self.nodes[a].succ.append((b, label))
        self.nodes[b].pred.append((a, label))

    def _connect(self, incoming, nid) -> None:
        for (src, lab) in incoming:
            self._edge(src, nid, lab)

    def _block(self, stmts, incoming):
        """incoming: list of (node id, edge label) dangling edges. returns dangling edges."""
        cur = incoming
        for st in stmts:
            if not cur:
                break  # unreachable code
            cur = self._stmt(st, cur)
        return cur

    def _test(self, expr, incoming, negated=False):
        """Expand a branch condition. returns (true_edges, false_edges)."""
        if isinstance(expr, ast.UnaryOp) and isinstance(expr.op, ast.Not):
            t, f = self._test(expr.operand, incoming, negated)
            return f, t
        if isinstance(expr, ast.BoolOp):
            if isinstance(expr.op, ast.And):
                cur = incoming
                falses = []
                for v in expr.values:
                    t, f = self._test(v, cur)
                    falses += f
                    cur = t
                return cur, falses
            else:
                cur = incoming
                trues = []
                for v in expr.values:
                    t, f = self._test(v, cur)
                    trues += t
                    cur = f
                return trues, cur
        n = self._new("test", expr)
        self._connect(incoming, n.id)
        self._exc_edge(n.id)
        return [(n.id, "T")], [(n.id, "F")]

    def _exc_edge(self, nid: int) -> None:
        if self._handlers:
            self._edge(nid, self._handlers[-1], "exc")

    def _stmt(self, st, incoming):
        if isinstance(st, ast.If):
            t, f = self._test(st.test, incoming)
            out_t = self._block(st.body, t)
            out_f = self._block(st.orelse, f) if st.orelse else f
            return out_t + out_f
        if isinstance(st, (ast.For, ast.AsyncFor)):
            head = self._new("for", st)
            self._connect(incoming, head.id)
            self._exc_edge(head.id)
            self._break_lists.append([])
            self._loops.append((head.id, 0))
            body_out = self._block(st.body, [(head.id, "loop")])
            for (nid, lab) in body_out:
                self._edge(nid, head.id, lab)
            self._loops.pop()
            breaks = self._break_lists.pop()
            done = [(head.id, "done")]
            if st.orelse:
                done = self._block(st.orelse, done)
            return done + [(b, None) for b in breaks]
        if isinstance(st, ast.While):
            # loop header is the (expanded) test
            anchor = self._new("stmt", ast.Pass())
            self._connect(incoming, anchor.id)
            t, f = self._test(st.test, [(anchor.id, None)])
            self._break_lists.append([])
            self._loops.append((anchor.id, 0))
            body_out = self._block(st.body, t)
            for (nid, lab) in body_out:
                self._edge(nid, anchor.id, lab)
            self._loops.pop()
            breaks = self._break_lists.pop()
            out = f
            if st.orelse:
                out = self._block(st.orelse, out)
            return out + [(b, None) for b in breaks]
        if isinstance(st, ast.Return):
            n = self._new("stmt", st)
            self._connect(incoming, n.id)
            self._exc_edge(n.id)
            self._edge(n.id, self.exit.id, None)
            return []
        if isinstance(st, ast.Raise):
            n = self._new("stmt", st)
            self._connect(incoming, n.id)
            if self._handlers:
                self._edge(n.id, self._handlers[-1], "exc")
            else:
                self._edge(n.id, self.raise_exit.id, None)
            return []
        if isinstance(st, ast.Break):
            n = self._new("stmt", st)
            self._connect(incoming, n.id)
            if self._break_lists:
                self._break_lists[-1].append(n.id)
            return []
        if isinstance(st, ast.Continue):
            n = self._new("stmt", st)
            self._connect(incoming, n.id)
            if self._loops:
                self._edge(n.id, self._loops[-1][0], None)
            return []
        if isinstance(st, ast.Try):
            hentry = self._new("handler", st)
            has_handlers = bool(st.handlers)
            if has_handlers:
                self._handlers.append(hentry.id)
            body_out = self._block(st.body, incoming)
            if has_handlers:
                self._handlers.pop()
            if st.orelse:
                body_out = self._block(st.orelse, body_out)
            outs = list(body_out)
            for h in st.handlers:
                hn = self._new("stmt", h)
                self._edge(hentry.id, hn.id, "except")
                outs += self._block(h.body, [(hn.id, None)])
            # an exception no handler matches propagates
            if has_handlers:
                if self._handlers:
                    self._edge(hentry.id, self._handlers[-1], "exc")
                else:
                    self._edge(hentry.id, self.raise_exit.id, "unmatched")
            if st.finalbody:
                outs = self._block(st.finalbody, outs)
            return outs
        if isinstance(st, (ast.With, ast.AsyncWith)):
            n = self._new("stmt", st)
            self._connect(incoming, n.id)
            self._exc_edge(n.id)
            return self._block(st.body, [(n.id, None)])
        if isinstance(st, (ast.FunctionDef, ast.AsyncFunctionDef, ast.ClassDef)):
            n = self._new("stmt", st)
            self._connect(incoming, n.id)
            return [(n.id, None)]
        if isinstance(st, ast.Match):
            n = self._new("test", st.subject)
            self._connect(incoming, n.id)
            outs = []
            for case in st.cases:
                outs += self._block(case.body, [(n.id, "case")])
            return outs + [(n.id, "nomatch")]
        # simple statement
        n = self._new("stmt", st)
        self._connect(incoming, n.id)
        self._exc_edge(n.id)
        return [(n.id, None)]

    # --------------------------------------------------------------- queries
    def reachable(self, start: int, blocked: Iterable[int] = (), follow_exc=True) -> set[int]:
        blocked = set(blocked)
        seen = set()
        stack = [start]
        while stack:
            n = stack.pop()
            if n in seen or n in blocked:
                continue
            seen.add(n)
            for (m, lab) in self.nodes[n].succ:
                if not follow_exc and lab == "exc":
                    continue
                stack.append(m)
        return seen

    def all_paths_pass_through(self, targets: Iterable[int], start: Optional[int] = None,
                               goals: Optional[Iterable[int]] = None) -> bool:
        """True iff every path start ->* goal (default: EXIT, normal termination) visits a
        node of `targets`."""
        start = self.entry.id if start is None else start
        goals = {self.exit.id} if goals is None else set(goals)
        targets = set(targets)
        if start in targets:
            return True
        reach = self.reachable(start, blocked=targets)
        return not (reach & goals)

    def dominators(self) -> dict[int, set[int]]:
        if self._dom is not None:
            return self._dom
        reach = self.reachable(self.entry.id)
        allnodes = set(reach)
        dom = {n: set(allnodes) for n in allnodes}
        dom[self.entry.id] = {self.entry.id}
        changed = True
        order = sorted(allnodes)
        while changed:
            changed = False
            for n in order:
                if n == self.entry.id:
                    continue
                preds = [p for (p, _) in self.nodes[n].pred if p in allnodes]
                if not preds:
                    continue
                new = set.intersection(*(dom[p] for p in preds)) | {n}
                if new != dom[n]:
                    dom[n] = new
                    changed = True
        self._dom = dom
        return dom

    def dominates(self, a: int, b: int) -> bool:
        return a in self.dominators().get(b, set())

    def stmt_nodes(self) -> list[Node]:
        return [n for n in self.nodes if n.kind in ("stmt", "test", "for")]

    def paths(self, limit: int = 2000, goals=None):
        """Enumerate acyclic-ish paths (each loop body at most once) entry -> goal.
        Yields lists of (node, incoming_label)."""
        goals = {self.exit.id, self.raise_exit.id} if goals is None else set(goals)
        out = []
        count = 0

        def rec(nid, path, visits):
            nonlocal count
            if count >= limit:
                return
            if nid in goals:
                out.append(list(path))
                count += 1
                return
            if visits.get(nid, 0) >= 2:
                return
            visits = dict(visits)
            visits[nid] = visits.get(nid, 0) + 1
            for (m, lab) in self.nodes[nid].succ:
                path.append((m, lab))
                rec(m, path, visits)
                path.pop()

        rec(self.entry.id, [(self.entry.id, None)], {})
        return out


# ----------------------------------------------------------------------------------
# expression-level helpers: which sub-expressions of a statement are evaluated
# unconditionally when the statement executes?

def node_expr(n: Node):
    """The expression(s) evaluated by a CFG node itself (not nested statement bodies)."""
    a = n.ast
    if a is None:
        return []
    if n.kind == "test":
        return [a]
    if n.kind == "for":
        return [a.iter]
    if isinstance(a, ast.ExceptHandler):
        return []
    if isinstance(a, (ast.With, ast.AsyncWith)):
        return [i.context_expr for i in a.items]
    if isinstance(a, (ast.FunctionDef, ast.AsyncFunctionDef, ast.ClassDef, ast.Try)):
        return []
    if isinstance(a, ast.stmt):
        return [c for c in ast.iter_child_nodes(a) if isinstance(c, ast.expr)]
    return []


def walk_unconditional(expr: ast.AST, include_comprehension_bodies: bool = True):
    """Yield the sub-expressions of `expr` that are certainly evaluated whenever `expr` is
    (no short-circuit right operands, no IfExp arms, no lambda bodies).  Comprehension
    element expressions are yielded with include_comprehension_bodies (they run once per
    element, so 'for every child' idioms count) but comprehension `if` filters make the
    element conditional."""
    stack = [expr]
    while stack:
        e = stack.pop()
        if e is None:
            continue
        yield e
        if isinstance(e, ast.BoolOp):
            stack.append(e.values[0])
            continue
        if isinstance(e, ast.IfExp):
            stack.append(e.test)
            continue
        if isinstance(e, ast.Lambda):
            continue
        if isinstance(e, (ast.ListComp, ast.SetComp, ast.GeneratorExp, ast.DictComp)):
            gens = e.generators
            stack.append(gens[0].iter)
            if include_comprehension_bodies and len(gens) == 1 and not gens[0].ifs:
                if isinstance(e, ast.DictComp):
                    stack.append(e.key)
                    stack.append(e.value)
                else:
                    stack.append(e.elt)
            continue
        if isinstance(e, ast.Compare):
            # chained comparisons short-circuit after the first pair
            stack.append(e.left)
            if e.comparators:
                stack.append(e.comparators[0])
            continue
        for c in ast.iter_child_nodes(e):
            if isinstance(c, (ast.expr, ast.keyword, ast.Starred, ast.FormattedValue)):
                stack.append(c)
            elif isinstance(c, ast.AST) and not isinstance(c, (ast.expr_context, ast.operator,
                                                                ast.unaryop, ast.cmpop, ast.boolop)):
                stack.append(c)


def calls_in(expr: ast.AST, unconditional_only: bool = False):
    it = walk_unconditional(expr) if unconditional_only else ast.walk(expr)
    for e in it:
        if isinstance(e, ast.Call):
            yield e


def attr_chain(e: ast.AST) -> Optional[list[str]]:
    """self._left._inner -> ['self', '_left', '_inner']; None if not a plain chain."""
    parts = []
    while isinstance(e, ast.Attribute):
        parts.append(e.attr)
        e = e.value
    if isinstance(e, ast.Name):
        parts.append(e.id)
        return list(reversed(parts))
    return None


def is_generator_consumed_lazily(call: ast.Call) -> bool:
    """any(...)/all(...)/next(...) over a generator may stop early."""
    if isinstance(call.func, ast.Name) and call.func.id in ("any", "all", "next"):
        return any(isinstance(a, ast.GeneratorExp) for a in call.args)
    return False
