"""Shared engine for C08 / C11: abstractly interpret the rewriting driver on enumerated
rule-input instances, step by step, reading every intermediate expression back into an
instance tree and attributing each step to the reducer that produced it."""
from __future__ import annotations
import ast
import itertools
import math

from .model import load_model, Model
from .harness import build, run_paths, exc_name, exc_origin
from .interp import Unsupported, InterpRaise
from .derivengine import obj_to_tree, obj_ids, _strip_sym, value_term_ext, has_sym_const
from .values import Obj
from .regions import IV
from . import spec
from .algebra import compare_terms
from .evalengine import region_env

E = math.e
SIGN_REGIONS = [IV(-math.inf, 0.0, True, True), IV.point(0.0), IV(0.0, math.inf, True, True)]
FINE_REGIONS = [IV(-math.inf, -1.0, True, True), IV.point(-1.0), IV(-1.0, 0.0, True, True), IV.point(0.0),
                IV(0.0, 1.0, True, True), IV.point(1.0), IV(1.0, math.inf, True, True)]


def mentioned_classes(model: Model, cname: str) -> list:
    """Expression classes a class's own methods inspect (isinstance / *_of_given_type)."""
    ci = model.cls(cname)
    out = []
    for c in model.mro(ci):
        if c.name in ("Expression",):
            continue
        bodies = list(c.methods.values())
        # module-level helpers of the class's own module that its methods call (one level)
        seen = set()
        for fi in list(bodies):
            for node in ast.walk(fi.node):
                if isinstance(node, ast.Call) and isinstance(node.func, ast.Name) and node.func.id not in seen:
                    seen.add(node.func.id)
                    r = model.resolve(c.module, node.func)
                    if r and r[0] == "func" and r[1].cls is None and r[1].module is c.module:
                        bodies.append(r[1])
        for fi in bodies:
            for node in ast.walk(fi.node):
                if not isinstance(node, ast.Call):
                    continue
                fname = node.func.id if isinstance(node.func, ast.Name) else (
                    node.func.attr if isinstance(node.func, ast.Attribute) else "")
                if fname in ("isinstance", "first_of_given_type", "partition_by_given_type") and len(node.args) >= 2:
                    targets = node.args[1].elts if isinstance(node.args[1], ast.Tuple) else [node.args[1]]
                    for t in targets:
                        r = model.resolve(c.module, t)
                        if r and r[0] == "class" and model.is_subclass(r[1], "Expression") \
                                and r[1].name in spec.ALL_CLASSES and r[1].name not in out:
                            out.append(r[1].name)
    return out


class Namer:
    def __init__(self):
        self.i = 0

    def var(self):
        self.i += 1
        return ("Variable", f"v{self.i}")


def child_shapes(cname: str, nm: Namer, tier: str, rich: bool) -> list:
    """Instances of class `cname` whose own children are fresh variables."""
    ns = (1, 2, 3, 4) if tier == "quick" else (1, 2, 3, 4, 5, 6)
    if not rich:
        ns = (2, 3)
    else:
        ns = ns + (3.0,)
    if cname == "Variable":
        return [nm.var()]
    if cname == "Constant":
        vals = (0, 1, -1, 2, 2.0, 0.5, -2, 3) if rich else (0, 1, -1, 2)
        return [("Constant", v) for v in vals]
    if cname in spec.UNARY:
        return [(cname, nm.var())]
    if cname in ("NthPower", "NthRoot"):
        return [(cname, nm.var(), n) for n in ns]
    # (bases related by integer powers: 2, 4, 1/4)
    if cname == "Exponential":
        return [(cname, nm.var(), b) for b in ((2, E, 0.5, 4, 0.25) if rich else (2, E))]
    if cname == "Logarithm":
        return [(cname, nm.var(), b) for b in ((2, E, 0.5, 4, 0.25) if rich else (2, E))]
    if cname in spec.BINARY:
        return [(cname, nm.var(), nm.var())]
    if cname in spec.NARY:
        out = [(cname, [nm.var(), nm.var()])]
        if rich:
            out += [(cname, []), (cname, [nm.var()]), (cname, [("Constant", -2), nm.var()]),
                    (cname, [nm.var(), ("Constant", 2)]), (cname, [("Constant", 0), nm.var()]),
                    # the sign carried as a literal -1 (first or last) or as a negated child
                    (cname, [("Constant", -1), nm.var()]), (cname, [nm.var(), nm.var(), ("Constant", -1)]),
                    (cname, [("Negation", nm.var()), nm.var()])]
        return out
    return []


def rule_inputs(model: Model, tier: str):
    """(tree, label) instances covering every rule's left-hand pattern: each class with children
    drawn from the classes its reducers inspect (plus a plain variable), all parameter
    combinations, every arity/position inside n-ary nodes up to 3."""
    names = [c.name for c in model.concrete_expression_classes() if c.name in spec.ALL_CLASSES]
    out = []
    # (integral floats are accepted spellings of n)
    ns_self = (1, 2, 3, 4, 5, 6, 4.0, 5.0) if tier == "quick" else (1, 2, 3, 4, 5, 6, 8, 9, 4.0, 5.0, 6.0)
    for k in names:
        if k in spec.LEAF:
            continue
        ment = mentioned_classes(model, k)
        kinds = ["Variable"] + ment
        nm = Namer()
        deep = any(fi.qualname.split(".")[0] == k for (fi, _ln, _p) in deep_pattern_sites(model))
        if k in spec.UNARY or k in spec.PARAM:
            for ck in kinds:
                shapes = child_shapes(ck, nm, tier, True)
                if deep and ck not in spec.LEAF:
                    shapes = shapes + deep_child_shapes(model, ck, kinds, nm, tier)
                for ch in shapes:
                    if k in spec.UNARY:
                        out.append(((k, ch), f"{k}<{ck}>"))
                    elif k in ("NthPower", "NthRoot"):
                        for n in ns_self:
                            out.append(((k, ch, n), f"{k}<{ck}>"))
                    elif k == "Exponential":
                        for b in (2, E, 0.5, 1, 4):
                            out.append(((k, ch, b), f"{k}<{ck}>"))
                    else:
                        for b in (2, E, 0.5, 4):
                            out.append(((k, ch, b), f"{k}<{ck}>"))
        elif k in spec.BINARY:
            if deep:
                for ck in kinds:
                    if ck in spec.LEAF:
                        continue
                    for ch in deep_child_shapes(model, ck, kinds, nm, tier):
                        out.append(((k, ch, nm.var()), f"{k}<deep {ck},_>"))
                        out.append(((k, nm.var(), ch), f"{k}<_,deep {ck}>"))
            for lk in kinds:
                for rk in kinds:
                    for l in child_shapes(lk, nm, tier, True):
                        for r in child_shapes(rk, nm, tier, lk == "Variable" or rk == "Variable"):
                            out.append(((k, l, r), f"{k}<{lk},{rk}>"))
        else:
            if deep:
                # a reducer of this n-ary class inspects grandchildren: children whose own children are
                # drawn from the inspected classes, alone and next to each plain child shape
                deeps = []
                for ck in kinds:
                    if ck not in spec.LEAF:
                        deeps += [(ck, ch) for ch in deep_child_shapes(model, ck, kinds, nm, tier)]
                plain = []
                for ck in kinds:
                    plain += [(ck, ch) for ch in child_shapes(ck, nm, tier, False)[:2]]
                for (dk, dch) in deeps:
                    out.append(((k, [dch]), f"{k}<deep {dk}>"))
                    for (pk, pch) in plain:
                        out.append(((k, [pch, dch]), f"{k}<{pk},deep {dk}>"))
                        out.append(((k, [dch, pch]), f"{k}<deep {dk},{pk}>"))
            max_ar = 3
            for ar in range(0, max_ar + 1):
                for combo in itertools.product(kinds, repeat=ar):
                    rich = ar <= 1
                    pools = [child_shapes(ck, nm, tier, rich) for ck in combo]
                    if ar == 3 and tier == "quick":
                        pools = [p[:2] for p in pools]
                    elif ar >= 2:
                        pools = [p[:3] for p in pools]
                    for kids in itertools.product(*pools):
                        out.append(((k, list(kids)), f"{k}<{','.join(combo)}>"))
            # two children of one parameterised class with DIFFERENT parameters, plain and with one of them
            # negated / inverted (rules that group children by class must also agree on the parameter)
            for ck in kinds:
                pairs = {"NthPower": ((2, 3),), "NthRoot": ((2, 3),), "Exponential": ((2, 10), (E, 2)),
                         "Logarithm": ((2, 10), (E, 2))}.get(ck, ())
                for (p1, p2) in pairs:
                    a_, b_ = (ck, nm.var(), p1), (ck, nm.var(), p2)
                    out.append(((k, [a_, b_]), f"{k}<{ck},{ck} different parameters>"))
                    out.append(((k, [a_, ("Negation", b_)]), f"{k}<{ck},-{ck} different parameters>"))
                    out.append(((k, [a_, ("Reciprocal", b_)]), f"{k}<{ck},1/{ck} different parameters>"))
                    out.append(((k, [("Negation", a_), b_, nm.var()]), f"{k}<-{ck},{ck} different parameters>"))
            # groups of one (class, parameter) in which a member REPEATS next to a different member, in
            # every order (rules that group children and treat repeats specially must keep the others)
            for ck in kinds:
                if ck in spec.LEAF:
                    continue
                par = {"NthPower": (2, 3), "NthRoot": (2, 3), "Exponential": (2,), "Logarithm": (2,)}.get(ck, (None,))
                for p_ in par:
                    va, vb = nm.var(), nm.var()
                    mk = (lambda v: (ck, v) if p_ is None else (ck, v, p_))
                    if ck in spec.BINARY:
                        vc = nm.var()
                        mk = (lambda v: (ck, v, vc))
                    elif ck in spec.NARY:
                        vc = nm.var()
                        mk = (lambda v: (ck, [v, vc]))
                    a_, b_ = mk(va), mk(vb)
                    for kids in ([a_, b_, a_], [a_, a_, b_], [b_, a_, a_], [a_, b_, a_, b_], [a_, nm.var(), b_, a_]):
                        out.append(((k, kids), f"{k}<{ck} group with a repeated and a different member>"))
            # arities 4 and 5: a deterministic sample of child-class combinations
            import random
            rng = random.Random(20260927)
            for ar in (4, 5):
                combos = list(itertools.product(kinds, repeat=ar))
                rng.shuffle(combos)
                for combo in combos[:60 if tier == "quick" else 400]:
                    kids = []
                    for ck in combo:
                        pool = child_shapes(ck, nm, tier, False)
                        kids.append(pool[rng.randrange(len(pool))])
                    out.append(((k, kids), f"{k}<arity {ar}>"))
    return out


def unary_chains(model: Model, tier: str):
    """Depth-3 chains of unary / parameterised-unary classes over one variable: combinations of a
    node with child and grandchild that enable several rules in sequence."""
    names = [c.name for c in model.concrete_expression_classes()]
    x = ("Variable", "x")
    kinds = []
    for k in ("NthPower", "NthRoot", "Negation", "Reciprocal", "Exponential", "Logarithm"):
        if k in names:
            kinds.append(k)
    pars = {"NthPower": (2, 3), "NthRoot": (2, 3), "Exponential": (2,), "Logarithm": (2,)}
    if tier != "quick":
        pars = {"NthPower": (2, 3, 4, 6), "NthRoot": (2, 3, 4, 6), "Exponential": (2, E), "Logarithm": (2, E)}

    def wrap(k, inner):
        if k in pars:
            return [(k, inner, p) for p in pars[k]]
        return [(k, inner)]
    out = []
    for k1 in kinds:
        for a in wrap(k1, x):
            for k2 in kinds:
                for b in wrap(k2, a):
                    for k3 in kinds:
                        for c in wrap(k3, b):
                            out.append((c, f"chain3:{k3}<{k2}<{k1}>>"))
    return out


def deep_child_shapes(model: Model, cname: str, kinds: list, nm: "Namer", tier: str) -> list:
    """Children of class `cname` whose own children are drawn from `kinds` (used when a reducer
    inspects grandchildren)."""
    out = []
    subs = []
    for gk in kinds:
        subs += child_shapes(gk, nm, tier, gk == "Constant")[:4]
    if cname in spec.UNARY:
        out = [(cname, g) for g in subs]
    elif cname in ("NthPower", "NthRoot"):
        out = [(cname, g, n) for g in subs for n in (2, 3)]
    elif cname in ("Exponential", "Logarithm"):
        out = [(cname, g, 2) for g in subs]
    elif cname in spec.BINARY:
        out = [(cname, g, nm.var()) for g in subs] + [(cname, nm.var(), g) for g in subs]
    elif cname in spec.NARY:
        out = [(cname, [g, nm.var()]) for g in subs] + [(cname, [nm.var(), g]) for g in subs] + \
              [(cname, [g]) for g in subs]
        # every child drawn from one inspected class (patterns of the form all(isinstance(c, K) ...))
        for gk in kinds:
            if gk in spec.LEAF:
                continue
            first = child_shapes(gk, nm, tier, False)[:2]
            twin = child_shapes(gk, nm, tier, False)[:2]
            for s1, s2 in zip(first, twin):
                out.append((cname, [s1, s2]))
    return out


def variable_free_inputs(model: Model):
    """Variable-free sub-trees for the constant-folding path, including undefined ones."""
    bad = [("Reciprocal", ("Constant", 0)), ("Logarithm", ("Constant", -1), E), ("NthRoot", ("Constant", -4), 2),
           ("Power", ("Constant", 0), ("Constant", 2)),
           # undefined as written, but with a rewrite rule that applies to them
           ("NthPower", ("NthRoot", ("Constant", -4), 2), 2), ("Reciprocal", ("Reciprocal", ("Constant", 0))),
           ("Multiply", [("Constant", 0), ("Logarithm", ("Constant", -1), E)]),
           ("Negation", ("Negation", ("Logarithm", ("Constant", 0), 2)))]
    good = [("Reciprocal", ("Constant", 4)), ("Logarithm", ("Constant", 8), 2), ("NthRoot", ("Constant", 9), 2),
            ("Add", [("Constant", 1), ("Constant", 2)]), ("Sine", ("Constant", 0)),
            ("Exponential", ("Constant", -40), E), ("Reciprocal", ("NthPower", ("Constant", 10), 12)),
            ("Exponential", ("Constant", 40), 2), ("NthRoot", ("Constant", 2), 2), ("Divide", ("Constant", 1), ("Constant", 3))]
    x = ("Variable", "x")
    out = []
    for b in bad + good:
        out.append((b, "fold"))
        out.append((("Multiply", [("Constant", 0), b]), "fold-under-zero"))
        out.append((("Multiply", [x, b]), "fold-beside-variable"))
        out.append((("Multiply", [x, ("Constant", 2), b]), "fold-beside-variable-and-constant"))
        out.append((("Add", [("Constant", 2), x, b, ("Constant", 3)]), "fold-beside-variable-and-constants"))
        out.append((("Add", [x, ("Negation", b)]), "fold-in-sum"))
        out.append((("Power", ("Constant", 1), b), "fold-exponent-of-one"))
        out.append((("Power", b, ("Constant", 0)), "fold-to-the-zero"))
        out.append((("Divide", ("Constant", 0), b), "fold-zero-numerator"))
    return out


def reduce_trace(args):
    """Worker: drive the rewriter step by step exactly as _fully_reduce does, then the
    normal-form pass.  Returns the sequence of trees and who produced each."""
    tree, max_steps = args
    model = load_model()

    def thunk(it):
        it.call_log = []
        e = build(it, tree, {})
        seq = [("input", obj_to_tree(it, e), it.to_repr(e), obj_ids(it, e))]
        cur = e
        steps = 0
        blind = False       # the form grew too deep to be read back: keep driving, only count steps
        while True:
            flag = it.getattr(cur, "_is_fully_reduced")
            if it.truth(flag):
                break
            if steps >= max_steps:
                seq.append(("<step budget exhausted>", None, None, None))
                return seq, None
            mark = len(it.call_log)
            before_ids = None if blind else obj_ids(it, cur)
            nxt = it.call(it.getattr(cur, "_take_reduction_step"), [], {})
            steps += 1
            cur = nxt
            if blind:
                del it.call_log[:]
                continue
            who = "driver"
            for (q, _recv) in it.call_log[mark:]:
                nmq = q.split(".")[-1]
                if nmq.startswith("_reduce") or nmq == "_consolidate_expression_lacking_variables":
                    who = q
            try:
                t = obj_to_tree(it, nxt)
            except Unsupported as u:
                if "too deep" in str(u):
                    seq.append((f"<grew beyond nesting depth 60 after {steps} driver steps; last rule {who}>", None, None, None))
                    return seq, None
                raise
            if t != seq[-1][1]:
                seq.append((who, t, it.to_repr(nxt), obj_ids(it, nxt), before_ids))
        if blind:
            return seq, None
        final = it.call(it.getattr(cur, "_normalize_fully_reduced"), [], {})
        seq.append(("normal-form pass", obj_to_tree(it, final), it.to_repr(final), obj_ids(it, final)))
        # end-to-end through the public pipeline on a fresh copy
        e2 = build(it, tree, {})
        n2 = it.call(it.getattr(e2, "_normalize"), [], {})
        return seq, (obj_to_tree(it, n2), steps)

    outs = run_paths(model, thunk, max_paths=4, max_steps=6000000, generic_only=True)
    o = outs[0]
    if o["kind"] == "return":
        seq, end = o["value"]
        return {"kind": "ok", "seq": seq, "end": end, "warnings": o["warnings"], "paths": len(outs)}
    if o["kind"] == "raise":
        return {"kind": "raise", "exc": exc_name(o["exc"]), "origin": exc_origin(o["exc"])}
    return {"kind": "unsupported", "msg": o["msg"]}


def compare_trees(a, b, regions):
    """Is b defined wherever a is, with the same value?  -> list of problems (dicts)."""
    names = spec.variables(a)
    extra = [v for v in spec.variables(b) if v not in names]
    problems = []
    if extra:
        problems.append({"kind": "new-variable", "detail": ",".join(extra)})
        return problems, 0
    n = 0
    sa, sb = _strip_sym(a), _strip_sym(b)
    for combo in itertools.product(regions, repeat=len(names)):
        val = dict(zip(names, combo))
        try:
            ra = spec.eval_iv(sa, val)
        except (spec.Unknown, KeyError):
            continue
        if ra[0] != "ok":
            continue            # nothing promised where the input is undefined
        n += 1
        try:
            rb = spec.eval_iv(sb, val)
        except spec.Unknown:
            rb = ("ok", None)
        desc = ", ".join(f"{k} in {iv!r}" for k, iv in val.items())
        if rb[0] != "ok":
            problems.append({"kind": "domain-shrinks", "at": desc, "detail": f"{rb[1]}: {rb[2]}",
                             "region": _rc(val)})
            continue
        signs = spec.signs_from_valuation({k: iv for k, iv in val.items() if not iv.is_point()})
        leaf = spec.leaf_terms(val)
        verdict, wit = compare_terms(value_term_ext(b, leaf), value_term_ext(a, leaf), signs,
                                     region_env=region_env(val))
        if verdict == "equal":
            continue
        if verdict == "differ":
            problems.append({"kind": "value-differs", "at": desc, "detail": wit, "region": _rc(val)})
        elif verdict == "undef1":
            problems.append({"kind": "domain-shrinks", "at": desc, "detail": str(wit), "region": _rc(val)})
        elif verdict == "undef2":
            pass                # algebra decides the *input* undefined here: nothing promised
        elif verdict != "both-undef":
            problems.append({"kind": "unknown", "at": desc, "detail": str(wit), "region": _rc(val)})
    return problems, n


def _rc(val):
    def one(iv):
        if iv.is_point():
            return f"={iv.lo:g}"
        return {"+": ">0", "-": "<0", None: "?"}[iv.sign()]
    return ",".join(one(v) for _k, v in sorted(val.items()))


def applicable_rules(args):
    """Worker: for a (supposedly fully reduced) tree, call every reducer of every node of a
    fresh copy directly -- independent of the driver and its flags.  -> list of (reducer, at)."""
    (tree,) = args
    model = load_model()

    def thunk(it):
        root = build(it, _strip_sym(tree), None)
        found = []
        seen = set()

        def visit(o, depth):
            if not isinstance(o, Obj) or o.oid in seen or depth > 40:
                return
            seen.add(o.oid)
            for v in list(o.attrs.values()):
                if isinstance(v, Obj):
                    visit(v, depth + 1)
                elif isinstance(v, list):
                    for x in v:
                        visit(x, depth + 1)
            if model.resolve_method(o.cls, "_reducers") is not None:
                for red in it.iterate(it.getattr(o, "_reducers")):
                    r = it.call(red, [], {})
                    if r is not None:
                        name = red.func.qualname if hasattr(red, "func") else repr(red)
                        found.append((name, it.to_repr(o), it.to_repr(r)))
            fold = model.resolve_method(o.cls, "_consolidate_expression_lacking_variables")
            if fold is not None and model.is_subclass(o.cls, "Expression"):
                r = it.call_function(fold, [o], {})
                if r is not None:
                    found.append((fold.qualname, it.to_repr(o), it.to_repr(r)))
        visit(root, 0)
        return found

    outs = run_paths(model, thunk, max_paths=2, max_steps=3000000, generic_only=True)
    o = outs[0]
    if o["kind"] == "return":
        return {"kind": "ok", "found": o["value"]}
    if o["kind"] == "raise":
        return {"kind": "raise", "exc": exc_name(o["exc"])}
    return {"kind": "unsupported", "msg": o["msg"]}


def random_trees(seed: int, count: int, max_size: int, names=("x", "y", "z")):
    """Random expression trees over all 15 constructors (thorough tiers): nested combinations that
    enable several rules at once, with few distinct variables so that sign regions stay enumerable."""
    import random
    rng = random.Random(seed * 1000003 + 17)
    consts = (0, 1, -1, 2, 2.0, 0.5, -2, 3, E)

    def gen(budget):
        if budget <= 1 or rng.random() < 0.18:
            if rng.random() < 0.7:
                return ("Variable", rng.choice(names))
            return ("Constant", rng.choice(consts))
        k = rng.choice(("Add", "Add", "Multiply", "Multiply", "Minus", "Divide", "Power", "Negation", "Negation",
                        "Reciprocal", "Reciprocal", "Sine", "Cosine", "NthPower", "NthPower", "NthRoot", "NthRoot",
                        "Exponential", "Logarithm"))
        if k in spec.NARY:
            ar = rng.choice((0, 1, 2, 2, 3, 3, 4))
            share = budget - 1
            kids = []
            for i in range(ar):
                b = max(1, share // max(1, ar - i)) if i == ar - 1 else rng.randint(1, max(1, share // max(1, ar - i) * 2 // 1))
                b = min(b, share)
                kids.append(gen(b))
                share = max(1, share - b)
            return (k, kids)
        if k in spec.BINARY:
            b1 = rng.randint(1, max(1, budget - 2))
            return (k, gen(b1), gen(max(1, budget - 1 - b1)))
        if k in spec.UNARY:
            return (k, gen(budget - 1))
        if k in ("NthPower", "NthRoot"):
            return (k, gen(budget - 1), rng.choice((1, 2, 2, 3, 3, 4, 5, 6)))
        return (k, gen(budget - 1), rng.choice((2, E, 0.5, 3.0) + ((1,) if k == "Exponential" else ())))

    out = []
    for i in range(count):
        t = gen(rng.randint(4, max_size))
        out.append((t, f"random(size<={max_size})"))
    return out


def deep_pattern_sites(model: Model):
    """Reducers that inspect the *class* of something deeper than a direct child: their patterns are
    deeper than the enumerated rule inputs (children of children are plain variables)."""
    from .cfg import attr_chain
    out = []
    for ci in model.concrete_expression_classes():
        for c in model.mro(ci):
            for fi in c.methods.values():
                if not fi.name.startswith("_reduce") or fi.is_property:
                    continue
                sn = fi.params[0] if fi.params else "self"
                aliases = {}
                for node in ast.walk(fi.node):
                    if isinstance(node, ast.Assign) and len(node.targets) == 1 and isinstance(node.targets[0], ast.Name):
                        ch = attr_chain(node.value)
                        if ch and ch[0] == sn:
                            aliases[node.targets[0].id] = ch
                for node in ast.walk(fi.node):
                    if isinstance(node, (ast.For, ast.comprehension)) and isinstance(node.target, ast.Name):
                        ch = attr_chain(node.iter)
                        if ch and ch[0] in aliases:
                            ch = aliases[ch[0]] + ch[1:]
                        if ch and ch[0] == sn and len(ch) >= 2:
                            aliases[node.target.id] = ch[:-1] + [ch[-1] + "[]"]
                for node in ast.walk(fi.node):
                    if isinstance(node, ast.Call) and isinstance(node.func, ast.Name) and node.func.id in ("isinstance", "type") \
                            and node.args:
                        ch = attr_chain(node.args[0])
                        if ch and ch[0] in aliases:
                            ch = aliases[ch[0]] + ch[1:]
                        if ch and ch[0] == sn and len(ch) >= 3:
                            out.append((fi, node.lineno, ".".join(ch)))
    seen = set()
    uniq = []
    for fi, ln, path in out:
        if (fi.qualname, ln) not in seen:
            seen.add((fi.qualname, ln))
            uniq.append((fi, ln, path))
    return uniq
