"""Glue between instance trees (spec.py), the abstract interpreter and the checks."""
from __future__ import annotations
import ast
import itertools
import math

from .model import Model, AnalysisError
from .interp import Unsupported, InterpRaise
from .interp_ops import Interpreter, explore
from .values import SymNum, Obj, ExcObj, ClassRef, ComplexVal, Maybe, HashVal, UStr
from .regions import IV, atoms_for
from . import spec


def cref(model: Model, name: str) -> ClassRef:
    return ClassRef(model.cls(name))


def build(it: Interpreter, tree, share: dict = None) -> Obj:
    """Construct the expression by interpreting the repository's constructors.
    `share` (id(tree) -> Obj) makes identical tree objects one shared node."""
    if share is not None and id(tree) in share:
        return share[id(tree)]
    m = it.model
    k = tree[0]
    if k == "Variable":
        o = it.call(cref(m, k), [UStr(tree[1])], {})
    elif k == "Constant":
        v = tree[1]
        o = it.call(cref(m, k), [SymNum.of(v) if isinstance(v, float) else v], {})
    elif k in spec.NARY:
        o = it.call(cref(m, k), [build(it, c, share) for c in tree[1]], {})
    elif k in spec.BINARY:
        o = it.call(cref(m, k), [build(it, tree[1], share), build(it, tree[2], share)], {})
    elif k in spec.UNARY:
        o = it.call(cref(m, k), [build(it, tree[1], share)], {})
    elif k in ("NthPower", "NthRoot"):
        n = tree[2]
        o = it.call(cref(m, k), [build(it, tree[1], share)],
                    {"n": SymNum.of(n) if isinstance(n, float) else n})
    elif k in ("Exponential", "Logarithm"):
        b = tree[2]
        o = it.call(cref(m, k), [build(it, tree[1], share)],
                    {"base": SymNum.of(b) if isinstance(b, float) else b})
    else:
        raise AnalysisError(f"unknown constructor {k}")
    if share is not None:
        share[id(tree)] = o
    return o


def leaf_value(name: str, iv: IV):
    if iv.is_point():
        return SymNum(("c", iv.lo), iv, iv.lo)
    return SymNum(("h", name), iv, None)


def make_point(it: Interpreter, val: dict) -> Obj:
    return it.call(cref(it.model, "Point"), [], {UStr(k): leaf_value(k, iv) for k, iv in val.items()})


def exc_name(exc) -> str:
    if isinstance(exc, Obj):
        return exc.cls.name
    if isinstance(exc, ExcObj):
        return exc.name
    return type(exc).__name__


def exc_origin(exc) -> str:
    if isinstance(exc, Obj):
        return exc.attrs.get("__origin__", "")
    if isinstance(exc, ExcObj):
        return exc.origin
    return ""


def compare_literals(model: Model, module_filter=None) -> list:
    """Numeric literals that appear as comparison operands anywhere in the package: the
    split points of the region partition (so every guard is region-aligned)."""
    pts = set()
    for mod in model.modules.values():
        if module_filter and not module_filter(mod):
            continue
        for node in ast.walk(mod.tree):
            if isinstance(node, ast.Compare):
                for e in [node.left] + list(node.comparators):
                    v = _num_literal(e)
                    if v is not None and abs(v) <= 64:
                        pts.add(float(v))
    return sorted(pts)


def _num_literal(e):
    if isinstance(e, ast.Constant) and isinstance(e.value, (int, float)) and not isinstance(e.value, bool):
        return e.value
    if isinstance(e, ast.UnaryOp) and isinstance(e.op, ast.USub):
        v = _num_literal(e.operand)
        return -v if v is not None else None
    if isinstance(e, ast.Attribute) and isinstance(e.value, ast.Name) and e.value.id == "math" and e.attr == "e":
        return math.e
    return None


def partition(model: Model, tier: str, extra=()):
    lits = set(compare_literals(model)) | {0.0, 1.0} | set(extra)
    if tier == "quick":
        lits = {v for v in lits if v in (-1.0, 0.0, 1.0) or v not in (2.0, 3.0, math.e)}
        # 2, 3 are integer-parameter literals (n == 2, n == 3) on the reference tree; they are
        # still split points in the thorough tier.  Anything else a change introduces is kept.
    return atoms_for(sorted(lits))


def valuations(names, atoms):
    for combo in itertools.product(atoms, repeat=len(names)):
        yield dict(zip(names, combo))


def run_paths(model, thunk, max_paths=32, max_steps=400000, generic_only=False):
    return list(explore(model, thunk, max_paths=max_paths, max_steps=max_steps, generic_only=generic_only))


def describe_val(val: dict) -> str:
    return ", ".join(f"{k} in {iv!r}" for k, iv in val.items())
