"""EFFECTS: static write-effect analysis (C10).

For every function: attribute stores, subscript stores, augmented assignments, `del` and
calls of mutating container methods, with an owned/borrowed classification of the target's
root (flow-insensitive: a local is *owned* iff every binding of it is a fresh-container
expression; parameters and fields of self/parameters are *borrowed*)."""
from __future__ import annotations
import ast
from .model import Model, FuncInfo
from .cfg import attr_chain
from .structure import class_fields, self_name

MUTATORS = {"append", "extend", "insert", "pop", "remove", "sort", "reverse", "clear", "update", "add",
            "discard", "setdefault", "popitem", "__setitem__", "__delitem__", "__iadd__", "difference_update",
            "intersection_update", "symmetric_difference_update"}
VALUE_CLASSES = ["Point", "Partial", "Derivative", "Differential", "LocatedDifferential"]


DENOTATION_METHODS = ("__eq__", "__hash__", "__repr__", "__str__", "_to_string")


def _self_reads(model: Model, ci, fi: FuncInfo, depth=0) -> set:
    """attributes of self/other read by a method (following property getters and helper methods)"""
    out = set()
    names = {a.arg for a in fi.node.args.posonlyargs + fi.node.args.args}
    for node in ast.walk(fi.node):
        if isinstance(node, ast.Attribute) and isinstance(node.value, ast.Name) and node.value.id in names:
            callee = model.resolve_method(ci, node.attr)
            if callee is not None and depth < 3:
                if callee.is_property or callee.name in DENOTATION_METHODS:
                    out |= _self_reads(model, ci, callee, depth + 1)
                continue
            out.add(node.attr)
        if isinstance(node, ast.Call) and isinstance(node.func, ast.Attribute) and isinstance(node.func.value, ast.Call) \
                and isinstance(node.func.value.func, ast.Name) and node.func.value.func.id == "super" and depth < 3:
            mro = model.mro(ci)
            idx = [c.name for c in mro].index(fi.cls.name) if fi.cls in mro else 0
            for c in mro[idx + 1:]:
                if node.func.attr in c.methods:
                    out |= _self_reads(model, ci, c.methods[node.func.attr], depth + 1)
                    break
    return out


def structural_fields(model: Model) -> dict:
    """class name -> fields that define what the object denotes: its children, its variable set
    and every field its own ==, hash or printed form reads."""
    out = {}
    for ci in model.classes.values():
        if model.is_subclass(ci, "Expression") or ci.name in VALUE_CLASSES:
            f = class_fields(model, ci)
            init_fields = set(f.all_init)
            s = set(f.child_single) | set(f.child_list)
            if "_variable_names" in init_fields:
                s.add("_variable_names")
            for mname in DENOTATION_METHODS:
                m = model.resolve_method(ci, mname)
                if m is not None:
                    s |= (_self_reads(model, ci, m) & init_fields)
            out[ci.name] = s
    return out


def memo_fields(model: Model) -> set:
    out = set()
    for ci in model.classes.values():
        if model.is_subclass(ci, "Expression") or ci.name in VALUE_CLASSES:
            out |= set(class_fields(model, ci).memo)
    return out


def _fresh(e) -> bool:
    """expression that creates a new container / immutable value"""
    if isinstance(e, (ast.List, ast.Dict, ast.Set, ast.ListComp, ast.DictComp, ast.SetComp, ast.Tuple,
                      ast.Constant, ast.JoinedStr, ast.GeneratorExp)):
        return True
    if isinstance(e, ast.Call):
        f = e.func
        nm = f.id if isinstance(f, ast.Name) else (f.attr if isinstance(f, ast.Attribute) else "")
        if nm in ("list", "dict", "set", "tuple", "sorted", "frozenset", "copy", "deepcopy", "union", "items",
                  "keys", "values", "enumerate", "zip", "range", "map", "filter", "reversed", "float", "int", "str",
                  "len", "sum", "round", "abs", "group_by_key", "map_dictionary_values", "partition_by_predicate",
                  "list_without_entry_at", "list_with_updated_entry_at", "partition_by_given_type"):
            return True
        return False
    if isinstance(e, ast.Subscript) and isinstance(e.slice, ast.Slice):
        return True
    if isinstance(e, ast.BinOp):
        return True
    if isinstance(e, ast.IfExp):
        return _fresh(e.body) and _fresh(e.orelse)
    return False


def local_ownership(fn: ast.FunctionDef) -> dict:
    """local name -> True (owned: every binding fresh) / False"""
    owned = {}
    params = {a.arg for a in fn.args.posonlyargs + fn.args.args + fn.args.kwonlyargs}
    if fn.args.vararg:
        params.add(fn.args.vararg.arg)
    if fn.args.kwarg:
        params.add(fn.args.kwarg.arg)

    def bind(name, fresh):
        owned[name] = owned.get(name, True) and fresh

    for node in ast.walk(fn):
        if isinstance(node, ast.Assign):
            for t in node.targets:
                if isinstance(t, ast.Name):
                    bind(t.id, _fresh(node.value) or (isinstance(node.value, ast.Name) and owned.get(node.value.id, False)))
                elif isinstance(t, (ast.Tuple, ast.List)):
                    for e in t.elts:
                        if isinstance(e, ast.Name):
                            bind(e.id, _fresh(node.value))
        elif isinstance(node, ast.AnnAssign) and isinstance(node.target, ast.Name) and node.value is not None:
            bind(node.target.id, _fresh(node.value))
        elif isinstance(node, (ast.For, ast.comprehension)):
            t = node.target
            for e in ([t] if isinstance(t, ast.Name) else getattr(t, "elts", [])):
                if isinstance(e, ast.Name):
                    bind(e.id, False)      # elements of someone else's container
    for p in params:
        owned[p] = False
    return owned


def analyse(model: Model):
    """-> list of effect records dict(kind, func, where, target, root, field, owned, detail)"""
    sf = structural_fields(model)
    all_struct = set().union(*sf.values()) if sf else set()
    memos = memo_fields(model)
    out = []
    for fi in model.all_functions():
        fn = fi.node
        sn = self_name(fi) if fi.cls is not None else None
        owned = local_ownership(fn)
        # fields given a fresh container in this very constructor are owned by it
        fresh_fields = set()
        if fi.name == "__init__" and sn:
            for node in ast.walk(fn):
                if isinstance(node, ast.Assign) and len(node.targets) == 1 and isinstance(node.targets[0], ast.Attribute) \
                        and isinstance(node.targets[0].value, ast.Name) and node.targets[0].value.id == sn \
                        and _fresh(node.value):
                    fresh_fields.add(node.targets[0].attr)

        def classify(target):
            """-> (root description, owned?, struct field or None)"""
            ch = attr_chain(target)
            t = target
            while isinstance(t, ast.Subscript):
                t = t.value
                ch = attr_chain(t)
            if ch is None:
                return ("<expression>", False, None)
            root = ch[0]
            fld = next((c for c in ch[1:] if c in all_struct), None)
            if len(ch) == 1:
                return (root, owned.get(root, False), None)
            if len(ch) == 2 and root == sn and ch[1] in fresh_fields:
                return (".".join(ch), True, fld)
            return (".".join(ch), False, fld)

        for node in ast.walk(fn):
            rec = None
            if isinstance(node, (ast.Assign, ast.AugAssign, ast.AnnAssign)):
                targets = node.targets if isinstance(node, ast.Assign) else [node.target]
                for t in targets:
                    if isinstance(t, ast.Attribute):
                        ch = attr_chain(t)
                        rec = dict(kind="attr-store", target=ast.unparse(t), field=t.attr,
                                   on_self=bool(ch and ch[0] == sn and len(ch) == 2))
                        out.append({**rec, "func": fi, "where": f"{fi.module.rel}:{node.lineno}"})
                    elif isinstance(t, ast.Subscript):
                        root, own, fld = classify(t)
                        out.append(dict(kind="item-store", target=ast.unparse(t), root=root, owned=own, field=fld,
                                        func=fi, where=f"{fi.module.rel}:{node.lineno}"))
                    elif isinstance(t, ast.Name) and isinstance(node, ast.AugAssign):
                        # x += ... mutates in place only for lists/sets/dicts; numbers/strings rebind
                        root, own, fld = classify(t)
                        out.append(dict(kind="aug-name", target=t.id, root=root, owned=own, field=None, func=fi,
                                        where=f"{fi.module.rel}:{node.lineno}", value=node.value,
                                        setop=isinstance(node.op, (ast.BitOr, ast.BitAnd, ast.BitXor))))
            elif isinstance(node, ast.Delete):
                for t in node.targets:
                    if isinstance(t, (ast.Subscript, ast.Attribute)):
                        root, own, fld = classify(t)
                        out.append(dict(kind="delete", target=ast.unparse(t), root=root, owned=own,
                                        field=fld if isinstance(t, ast.Subscript) else getattr(t, "attr", None),
                                        func=fi, where=f"{fi.module.rel}:{node.lineno}"))
            elif isinstance(node, ast.Call) and isinstance(node.func, ast.Attribute) and node.func.attr in MUTATORS:
                recv = node.func.value
                r = model.resolve(fi.module, node.func)
                if r is not None and r[0] in ("func", "class", "ext", "module"):
                    continue       # a function of a module (mf.add, ...), not a container method
                # dict.get/.. are not here; `.pop()`/`.update()` etc on a receiver
                root, own, fld = classify(recv)
                out.append(dict(kind="mutating-call", target=ast.unparse(node.func), root=root, owned=own, field=fld,
                                func=fi, where=f"{fi.module.rel}:{node.lineno}", method=node.func.attr))
            elif isinstance(node, ast.Call) and isinstance(node.func, ast.Name) and node.func.id in ("setattr", "delattr"):
                out.append(dict(kind="reflection", target=ast.unparse(node), root="", owned=False, field=None,
                                func=fi, where=f"{fi.module.rel}:{node.lineno}"))
    return out, sf, memos
