"""Obligations, three-valued verdicts, known findings, evidence files, exit codes.

exit 0  every obligation discharged (or matches a *known* entry of known_findings.json)
exit 1  at least one definite violation that is not a listed known finding
exit 2  analysis inconclusive / analysis error (never used for "property violated")
"""
from __future__ import annotations
import json
import os
import sys
import time
import traceback

VERIF = os.path.dirname(os.path.dirname(os.path.abspath(__file__)))
EVIDENCE_DIR = os.environ.get("SMSTATIC_EVIDENCE_DIR") or os.path.join(VERIF, "evidence")
REPLAY_DIR = os.path.join(EVIDENCE_DIR, "replay")
KNOWN_FINDINGS = os.path.join(VERIF, "known_findings.json")


def load_known_findings() -> list[dict]:
    try:
        with open(KNOWN_FINDINGS, encoding="utf-8") as f:
            data = json.load(f)
    except FileNotFoundError:
        return []
    return list(data.get("findings", []))


def _finding_matches(k: dict, rule: str, construct: str, witness_class: str) -> bool:
    """A known finding is keyed by rule + construct (exact, or by a stated prefix) + witness
    class (exact, or by a stated regular expression).  Nothing else is ever suppressed."""
    import re
    if k.get("rule") != rule:
        return False
    if "construct" in k:
        if k["construct"] != construct:
            return False
    elif "construct_prefix" in k:
        if not construct.startswith(k["construct_prefix"]):
            return False
    else:
        return False
    if "witness_class" in k:
        return k["witness_class"] == witness_class
    if "witness_regex" in k:
        return re.fullmatch(k["witness_regex"], witness_class) is not None
    return False


class Report:
    def __init__(self, prop_id: str, tier: str, seed: int):
        self.prop_id = prop_id
        self.tier = tier
        self.seed = seed
        self.t0 = time.time()
        self.obligations: list[dict] = []
        self.violations: list[dict] = []
        self.known_hits: list[dict] = []
        self.inconclusive: list[dict] = []
        self.samples: list = []
        self.counters: dict = {}
        self.rule_counts: dict[str, int] = {}
        self.assumptions: list[str] = []
        self.extra: dict = {}
        self._known = [k for k in load_known_findings() if k.get("property") == prop_id]
        self._seen_violation_keys: set = set()
        self.cases = 0          # individual abstract cases decided (>= obligations)
        self.nontrivial = 0

    # ------------------------------------------------------------ recording
    def count(self, key: str, n: int = 1) -> None:
        self.counters[key] = self.counters.get(key, 0) + n

    def ok(self, rule: str, construct: str, where: str = "", detail: str = "",
           nontrivial: bool = True, cases: int = 1) -> None:
        self.obligations.append({"rule": rule, "construct": construct, "where": where,
                                 "verdict": "discharged", "detail": detail})
        self.rule_counts[rule] = self.rule_counts.get(rule, 0) + 1
        self.cases += cases
        if nontrivial:
            self.nontrivial += 1

    def violation(self, rule: str, construct: str, where: str, message: str,
                  witness=None, witness_class: str = "") -> None:
        """A definite counter-instance.  (rule, construct, witness_class) is the finding key."""
        key = (rule, construct, witness_class)
        entry = {"rule": rule, "construct": construct, "where": where, "verdict": "violated",
                 "message": message, "witness_class": witness_class, "witness": witness}
        self.rule_counts[rule] = self.rule_counts.get(rule, 0) + 1
        self.cases += 1
        self.nontrivial += 1
        for k in self._known:
            if k.get("status", "known") != "known":
                continue
            if _finding_matches(k, rule, construct, witness_class):
                fkey = ("known", k.get("id", ""), rule)
                if fkey not in self._seen_violation_keys:
                    self.known_hits.append({**entry, "finding": k.get("id", ""), "what": k.get("what", "")})
                    self._seen_violation_keys.add(fkey)
                else:
                    for h in self.known_hits:
                        if h["finding"] == k.get("id", "") and h["rule"] == rule:
                            h["instances"] = h.get("instances", 1) + 1
                self.obligations.append({**entry, "verdict": "known-finding"})
                return
        if key in self._seen_violation_keys:
            # same key reported again (another instance): keep count, one line
            for v in self.violations:
                if (v["rule"], v["construct"], v["witness_class"]) == key:
                    v["instances"] = v.get("instances", 1) + 1
            return
        self._seen_violation_keys.add(key)
        self.violations.append(entry)
        self.obligations.append(entry)

    def unknown(self, rule: str, construct: str, where: str, reason: str) -> None:
        e = {"rule": rule, "construct": construct, "where": where, "verdict": "inconclusive",
             "reason": reason}
        key = ("?", rule, construct, reason)
        if key in self._seen_violation_keys:
            return
        self._seen_violation_keys.add(key)
        self.inconclusive.append(e)
        self.obligations.append(e)

    def sample(self, s) -> None:
        if len(self.samples) < 12:
            self.samples.append(s)

    def assume(self, *texts: str) -> None:
        for t in texts:
            if t not in self.assumptions:
                self.assumptions.append(t)

    def require_floor(self, rule: str, floor: int, what: str) -> None:
        """Vacuity guard: fewer instances than confirmed by hand => analysis error."""
        n = self.rule_counts.get(rule, 0)
        if n < floor:
            self.unknown(rule, "<instance floor>", "",
                         f"rule matched {n} {what}, fewer than the {floor} confirmed on the "
                         f"reference tree: anchors moved, refusing to pass vacuously")

    # ------------------------------------------------------------ finishing
    def finish(self, explanation: str, technique: str, exhaustive: bool = False,
               trusted_base=None) -> int:
        os.makedirs(REPLAY_DIR, exist_ok=True)
        # remove stale replay files of this property
        for fn in os.listdir(REPLAY_DIR):
            if fn.startswith(self.prop_id + "-"):
                try:
                    os.remove(os.path.join(REPLAY_DIR, fn))
                except OSError:
                    pass
        lines = []
        for k in self.known_hits:
            lines.append(f"KNOWN-FINDING: property={self.prop_id} {k['finding']} {k['what']} -- e.g. "
                         f"{k['rule']} at {k['construct']} [{k['witness_class']}] {k['message'][:400]}"
                         + (f" (+{k['instances'] - 1} more instances)" if k.get("instances", 1) > 1 else ""))
        for i, v in enumerate(self.violations):
            path = os.path.join(REPLAY_DIR, f"{self.prop_id}-{i}.json")
            with open(path, "w", encoding="utf-8") as f:
                json.dump({"property": self.prop_id, **v}, f, indent=1, default=str)
            if i < 10:
                lines.append(f"VIOLATION property={self.prop_id} replay={path}")
                lines.append(f"  {v['where']} rule={v['rule']} construct={v['construct']} "
                             f"[{v['witness_class']}] {v['message']}"
                             + (f" (+{v['instances'] - 1} more instances)" if v.get("instances", 1) > 1 else ""))
            elif i == 10:
                lines.append(f"  ... and {len(self.violations) - 10} more distinct violations "
                             f"(replay files {self.prop_id}-10.. in {REPLAY_DIR})")
        for u in self.inconclusive:
            lines.append(f"ANALYSIS-INCONCLUSIVE property={self.prop_id} rule={u['rule']} "
                         f"construct={u['construct']} at {u['where']} reason={u['reason']}")
        discharged = sum(1 for o in self.obligations if o["verdict"] == "discharged")
        n_obl = len(self.obligations)
        coverage = {
            "explanation": explanation,
            "rule": technique,
            "obligations": n_obl,
            "discharged": discharged,
            "known_findings_matched": len(self.known_hits),
            "inconclusive": len(self.inconclusive),
            "evaluations": max(self.cases, n_obl),
            "distinct_nontrivial": self.nontrivial,
            "rule_instances": dict(sorted(self.rule_counts.items())),
            "samples": self.samples or [o for o in self.obligations[:6]],
            "exhaustive": bool(exhaustive),
            "checker_cmd": f"/verif/check {self.prop_id} --tier {self.tier}",
            "trusted_base": trusted_base or [
                "CPython ast parser", "smstatic engines (model, cfg, interp, algebra, regions)",
                "specification tables in smstatic/spec.py"],
        }
        coverage.update(self.counters)
        coverage.update(self.extra)
        evidence = {
            "property_id": self.prop_id,
            "tier": self.tier,
            "seed": self.seed,
            "level": "other",
            "coverage": coverage,
            "assumptions": self.assumptions,
            "wall_s": round(time.time() - self.t0, 3),
            "violations": len(self.violations),
            "known_findings": [
                {"rule": k["rule"], "construct": k["construct"], "witness_class": k["witness_class"]}
                for k in self.known_hits],
            "obligation_log": self.obligations[:400],
        }
        os.makedirs(EVIDENCE_DIR, exist_ok=True)
        with open(os.path.join(EVIDENCE_DIR, f"{self.prop_id}.json"), "w", encoding="utf-8") as f:
            json.dump(evidence, f, indent=1, default=str)
        for ln in lines:
            # (a 400-digit exponent in a witness should not flood the terminal; the replay file has it all)
            print(ln if len(ln) <= 1200 or ln.startswith("VIOLATION") else ln[:1200] + " ...")
        summary = (f"{self.prop_id} [{self.tier}] obligations={n_obl} discharged={discharged} "
                   f"cases={coverage['evaluations']} known={len(self.known_hits)} "
                   f"violations={len(self.violations)} inconclusive={len(self.inconclusive)} "
                   f"wall={evidence['wall_s']}s")
        print(summary)
        if self.violations:
            return 1
        if self.inconclusive:
            return 2
        return 0


def write_error_evidence(prop_id: str, tier: str, seed: int, message: str) -> None:
    os.makedirs(EVIDENCE_DIR, exist_ok=True)
    ev = {"property_id": prop_id, "tier": tier, "seed": seed, "level": "other",
          "coverage": {"explanation": "analysis error: " + message, "evaluations": 0,
                       "distinct_nontrivial": 0},
          "wall_s": 0.0, "violations": 0}
    with open(os.path.join(EVIDENCE_DIR, f"{prop_id}.json"), "w", encoding="utf-8") as f:
        json.dump(ev, f, indent=1)


def run_check(prop_id: str, tier: str, fn) -> int:
    """Top-level wrapper: every exception becomes ANALYSIS-ERROR / exit 2."""
    from .model import AnalysisError, Inconclusive
    try:
        seed = int(os.environ.get("VERIF_SEED", "0") or 0)
    except ValueError:
        seed = 0
    rep = Report(prop_id, tier, seed)
    try:
        return fn(rep)
    except Inconclusive as e:
        print(f"ANALYSIS-INCONCLUSIVE property={prop_id} construct={e.construct} reason={e.reason}")
        write_error_evidence(prop_id, tier, seed, str(e))
        return 2
    except AnalysisError as e:
        print(f"ANALYSIS-ERROR property={prop_id} {e}")
        write_error_evidence(prop_id, tier, seed, str(e))
        return 2
    except Exception as e:  # internal error of the analyser: never reported as a violation
        traceback.print_exc(file=sys.stderr)
        print(f"ANALYSIS-ERROR property={prop_id} internal {type(e).__name__}: {e}")
        write_error_evidence(prop_id, tier, seed, f"{type(e).__name__}: {e}")
        return 2
