"""Abstract interpreter for the Python subset used by smoothmath, working on the AST of
the current working tree (nothing from /repo is ever imported or executed by CPython).

Numeric leaves are abstract (SymNum: symbolic term + interval region, see values.py); the
heap (expression nodes, points, accumulators, derivative objects) is modelled object by
object, so memo fields, aliasing and mutation behave as the source says.  A branch whose
condition the region domain cannot decide is explored both ways by re-execution under a
decision script (`explore`), and the run is flagged imprecise.
"""
from __future__ import annotations
import ast
import math
import re
import sys
from typing import Optional

from .model import Model, FuncInfo, ClassInfo, ModuleInfo
from .regions import IV, UNIT
from .values import (SymNum, ComplexVal, Maybe, Obj, ExcObj, ClassRef, BuiltinType, ModRef,
                     ExtRef, BoundMethod, NativeMethod, Closure, SuperProxy, HashVal,
                     RegexObj, Builtin, OneShot)

sys.setrecursionlimit(max(sys.getrecursionlimit(), 20000))


class Unsupported(Exception):
    """Construct outside the interpreted subset -> the run is inconclusive."""


class StepLimit(Exception):
    pass


class InterpRaise(Exception):
    """A Python-level exception raised by the interpreted program."""

    def __init__(self, exc):
        super().__init__(repr(exc))
        self.exc = exc


class _Return(Exception):
    def __init__(self, value):
        self.value = value


class _Break(Exception):
    pass


class _Continue(Exception):
    pass


class Env:
    __slots__ = ("vars", "parent")

    def __init__(self, parent=None):
        self.vars = {}
        self.parent = parent

    def lookup(self, name):
        e = self
        while e is not None:
            if name in e.vars:
                return e.vars[name], True
            e = e.parent
        return None, False


class Frame:
    __slots__ = ("func", "module", "cls", "lineno")

    def __init__(self, func: Optional[FuncInfo], module: ModuleInfo, cls: Optional[ClassInfo]):
        self.func = func
        self.module = module
        self.cls = cls
        self.lineno = 0


BUILTIN_EXCEPTIONS = {
    "BaseException": None, "Exception": "BaseException", "ArithmeticError": "Exception",
    "ZeroDivisionError": "ArithmeticError", "OverflowError": "ArithmeticError",
    "ValueError": "Exception", "TypeError": "Exception", "KeyError": "LookupError",
    "IndexError": "LookupError", "LookupError": "Exception", "AttributeError": "Exception",
    "NotImplementedError": "RuntimeError", "RuntimeError": "Exception",
    "AssertionError": "Exception", "StopIteration": "Exception", "RecursionError": "RuntimeError",
    "NameError": "Exception", "UnboundLocalError": "NameError",
}
BUILTIN_TYPES = {"int", "float", "str", "bool", "list", "tuple", "dict", "set", "frozenset",
                 "complex", "object", "type", "NoneType", "bytes"}
BUILTIN_FUNCS = {"isinstance", "len", "range", "enumerate", "zip", "any", "all", "sum", "round",
                 "repr", "sorted", "hash", "abs", "min", "max", "print", "super", "getattr",
                 "hasattr", "setattr", "id", "map", "filter", "reversed", "iter", "next", "callable",
                 "issubclass", "divmod", "pow", "format", "vars"}


class Interp:
    def __init__(self, model: Model, max_steps: int = 400000):
        self.model = model
        self.max_steps = max_steps
        self.reset_run([])
        self._globals_cache = {}
        self._edisp = {}
        self._sdisp = {}
        self._name_cache = {}
        self.generic_only = False
        self.generic_skipped = 0
        self.set_order = "sorted"
        self.attr_write_log = None      # optional list of (obj, attr, qualname)
        self.call_log = None            # optional list of (qualname, receiver)
        self.warnings = []

    # ----------------------------------------------------------- run control
    def reset_run(self, script):
        self.script = list(script)
        self.pos = 0
        self.steps = 0
        self.imprecise = False
        self.fork_descs = []
        self.stack = []
        self.flags = set()
        self.warnings = []

    def decide(self, m: Maybe) -> bool:
        if self.generic_only and m.generic is not None:
            # stay on the generic side of an equality between reals (the other side is a
            # measure-zero subset of the region); recorded, not explored
            self.generic_skipped += 1
            return m.generic
        if self.pos < len(self.script):
            v = self.script[self.pos]
        else:
            v = True
            self.script.append(True)
        if len(self.fork_descs) <= self.pos:
            self.fork_descs.append(m.desc)
        self.pos += 1
        if m.generic is None or v != m.generic:
            self.imprecise = True
        if self.pos > 24:
            raise Unsupported("too many undecided branches on one path")
        return v

    def truth(self, v) -> bool:
        if isinstance(v, Maybe):
            return self.decide(v)
        if isinstance(v, bool) or v is None or isinstance(v, (int, str, list, tuple, dict, set,
                                                              frozenset, range)):
            return bool(v)
        if isinstance(v, SymNum):
            if v.conc is not None:
                return bool(v.conc)
            if v.iv.nonzero():
                return True
            if v.iv.is_point():
                return False
            return self.decide(Maybe(f"{v!r} != 0", generic=True))
        if isinstance(v, Obj):
            fi = self.model.resolve_method(v.cls, "__bool__")
            if fi is not None:
                return self.truth(self.call_function(fi, [v], {}))
            fi = self.model.resolve_method(v.cls, "__len__")
            if fi is not None:
                return self.truth(self.compare("!=", self.call_function(fi, [v], {}), 0))
            return True
        if isinstance(v, ComplexVal):
            return True
        return True

    def where(self) -> str:
        if not self.stack:
            return ""
        fr = self.stack[-1]
        name = fr.func.qualname if fr.func else "<module>"
        return f"{fr.module.rel}:{fr.lineno} in {name}"

    def tick(self):
        self.steps += 1
        if self.steps > self.max_steps:
            raise StepLimit(f"more than {self.max_steps} interpretation steps")

    def raise_builtin(self, name, msg=""):
        raise InterpRaise(ExcObj(name, (msg,), self.where()))

    # ------------------------------------------------------------ names
    def module_global(self, mod: ModuleInfo, name: str):
        b = mod.bindings.get(name)
        if b is None:
            return None, False
        r = self.model._follow(b)
        if r is None:
            return None, False
        return self.wrap_resolved(r, mod, name), True

    def wrap_resolved(self, r, mod, name):
        kind = r[0]
        if kind == "class":
            return ClassRef(r[1])
        if kind == "func":
            return r[1]
        if kind == "module":
            return ModRef(r[1])
        if kind == "ext":
            return self.ext_value(r[1])
        if kind == "global":
            # find the module that owns this assignment
            owner = None
            for m in self.model.modules.values():
                bb = m.bindings.get(name)
                if bb is not None and bb[0] == "global" and bb[1] is r[1]:
                    owner = m
                    break
            owner = owner or mod
            key = (owner.name, name)
            if key not in self._globals_cache:
                fr = Frame(None, owner, None)
                self.stack.append(fr)
                try:
                    self._globals_cache[key] = self.eval(r[1], Env())
                finally:
                    self.stack.pop()
            return self._globals_cache[key]
        raise Unsupported(f"binding kind {kind}")

    def ext_value(self, dotted: str):
        if dotted == "math.e":
            return SymNum.of(math.e)
        if dotted == "math.pi":
            return SymNum(("c", math.pi), IV.point(math.pi), math.pi)
        if dotted == "math.inf":
            return SymNum(("c", math.inf), IV(math.inf, math.inf), math.inf)
        if dotted in ("typing.TYPE_CHECKING",):
            return False
        if dotted == "math.tau":
            return SymNum(("c", math.tau), IV.point(math.tau), math.tau)
        if dotted.startswith("sys.float_info."):
            import sys as _sys
            v = getattr(_sys.float_info, dotted.rsplit(".", 1)[1], None)
            if isinstance(v, (int, float)) and not isinstance(v, bool):
                return SymNum.of(v) if isinstance(v, float) else v
        if dotted == "sys.maxsize":
            import sys as _sys
            return _sys.maxsize
        return ExtRef(dotted)

    def lookup_name(self, name: str, env: Env):
        v, ok = env.lookup(name)
        if ok:
            return v
        fr = self.stack[-1]
        key = (fr.module.name, name)
        hit = self._name_cache.get(key)
        if hit is not None:
            return hit[0]
        v, ok = self.module_global(fr.module, name)
        if ok:
            self._name_cache[key] = (v,)
            return v
        if name in BUILTIN_TYPES:
            return BuiltinType(name)
        if name in BUILTIN_EXCEPTIONS:
            return BuiltinType(name)
        if name in BUILTIN_FUNCS:
            return Builtin(name)
        if name == "NotImplemented":
            return Builtin("NotImplemented")
        if name == "__name__":
            return fr.module.name
        self.raise_builtin("NameError", f"name {name!r} is not defined")

    # ------------------------------------------------------------ expressions
    def eval(self, node, env: Env):
        self.steps += 1
        if self.steps > self.max_steps:
            raise StepLimit(f"more than {self.max_steps} interpretation steps")
        tp = type(node)
        m = self._edisp.get(tp)
        if m is None:
            m = getattr(self, "e_" + tp.__name__, None)
            if m is None:
                raise Unsupported(f"expression {tp.__name__} at {self.where()}")
            self._edisp[tp] = m
        try:
            self.stack[-1].lineno = node.lineno
        except (AttributeError, IndexError):
            pass
        return m(node, env)

    def e_Constant(self, node, env):
        v = node.value
        if isinstance(v, float):
            return SymNum.of(v)
        if isinstance(v, (int, str, bool, bytes)) or v is None or v is Ellipsis:
            return v
        if isinstance(v, complex):
            return ComplexVal()
        raise Unsupported(f"constant {v!r}")

    def e_Name(self, node, env):
        return self.lookup_name(node.id, env)

    def e_Attribute(self, node, env):
        base = self.eval(node.value, env)
        return self.getattr(base, node.attr)

    def e_Tuple(self, node, env):
        return tuple(self.eval_seq(node.elts, env))

    def e_List(self, node, env):
        return self.eval_seq(node.elts, env)

    def e_Set(self, node, env):
        return set(self.hashable(v) for v in self.eval_seq(node.elts, env))

    def eval_seq(self, elts, env) -> list:
        out = []
        for e in elts:
            if isinstance(e, ast.Starred):
                out.extend(self.iterate(self.eval(e.value, env)))
            else:
                out.append(self.eval(e, env))
        return out

    def e_Dict(self, node, env):
        d = {}
        for k, v in zip(node.keys, node.values):
            if k is None:
                src = self.eval(v, env)
                if not isinstance(src, dict):
                    raise Unsupported("** of non-dict")
                d.update(src)
            else:
                d[self.hashable(self.eval(k, env))] = self.eval(v, env)
        return d

    def hashable(self, k):
        if isinstance(k, (list, dict, set)):
            self.raise_builtin("TypeError", "unhashable type")
        return k

    def e_JoinedStr(self, node, env):
        parts = []
        for v in node.values:
            if isinstance(v, ast.Constant):
                parts.append(str(v.value))
            elif isinstance(v, ast.FormattedValue):
                val = self.eval(v.value, env)
                spec = self.eval(v.format_spec, env) if v.format_spec is not None else ""
                if v.conversion == 114:
                    s = self.to_repr(val)
                    if spec:
                        s = format(s, spec)
                elif v.conversion in (115, 97):
                    s = self.to_str(val)
                    if spec:
                        s = format(s, spec)
                else:
                    # f"{val}" is format(val, ""), i.e. type(val).__format__(val, "") -- a class
                    # defining __format__ is printed through it even without a format spec
                    s = self.format_value(val, spec)
                parts.append(s)
            else:
                raise Unsupported("f-string part")
        return "".join(parts)

    def format_value(self, val, spec):
        if isinstance(val, Obj):
            fi = self.model.resolve_method(val.cls, "__format__")
            if fi is not None:
                r = self.call_function(fi, [val, spec], {})
                if not isinstance(r, str):
                    self.raise_builtin("TypeError", "__format__ must return a str")
                return r
            if spec:
                self.raise_builtin("TypeError", "unsupported format string passed to object.__format__")
            return self.to_str(val)
        if not spec:
            return self.to_str(val)
        if isinstance(val, SymNum) and val.conc is not None:
            return format(val.conc, spec)
        if isinstance(val, (int, float, str)):
            return format(val, spec)
        return self.to_str(val)

    def e_UnaryOp(self, node, env):
        v = self.eval(node.operand, env)
        if isinstance(node.op, ast.Not):
            if isinstance(v, Maybe):
                return v.negated()
            return not self.truth(v)
        if isinstance(node.op, ast.USub):
            return self.neg(v)
        if isinstance(node.op, ast.UAdd):
            if isinstance(v, (int, SymNum)):
                return v
            if isinstance(v, Obj):
                return self.call_dunder(v, "__pos__", [])
        raise Unsupported(f"unary {type(node.op).__name__}")

    def e_BoolOp(self, node, env):
        if isinstance(node.op, ast.And):
            v = True
            for e in node.values:
                v = self.eval(e, env)
                if not self.truth(v):
                    return v if not isinstance(v, Maybe) else False
            return v if not isinstance(v, Maybe) else True
        v = False
        for e in node.values:
            v = self.eval(e, env)
            if self.truth(v):
                return v if not isinstance(v, Maybe) else True
        return v if not isinstance(v, Maybe) else False

    def e_IfExp(self, node, env):
        if self.truth(self.eval(node.test, env)):
            return self.eval(node.body, env)
        return self.eval(node.orelse, env)

    def e_BinOp(self, node, env):
        a = self.eval(node.left, env)
        b = self.eval(node.right, env)
        return self.binop(type(node.op).__name__, a, b)

    def e_Compare(self, node, env):
        left = self.eval(node.left, env)
        result = True
        for op, comp in zip(node.ops, node.comparators):
            right = self.eval(comp, env)
            r = self.compare(_CMP[type(op).__name__], left, right)
            if len(node.ops) == 1:
                return r
            if not self.truth(r):
                return False
            left = right
        return result

    def e_Yield(self, node, env):
        acc, ok = env.lookup("__yielded__")
        if not ok:
            raise Unsupported("yield outside an eagerly run generator function")
        acc.append(self.eval(node.value, env) if node.value is not None else None)
        return None

    def e_YieldFrom(self, node, env):
        acc, ok = env.lookup("__yielded__")
        if not ok:
            raise Unsupported("yield from outside an eagerly run generator function")
        acc.extend(self.iterate(self.eval(node.value, env)))
        return None

    def e_Lambda(self, node, env):
        return Closure(node, env, self.stack[-1])

    def e_Starred(self, node, env):
        raise Unsupported("starred expression in unsupported position")

    def e_NamedExpr(self, node, env):
        v = self.eval(node.value, env)
        env.vars[node.target.id] = v
        return v

    def e_Subscript(self, node, env):
        base = self.eval(node.value, env)
        if isinstance(node.slice, ast.Slice):
            lo = self.eval(node.slice.lower, env) if node.slice.lower else None
            hi = self.eval(node.slice.upper, env) if node.slice.upper else None
            st = self.eval(node.slice.step, env) if node.slice.step else None
            for x in (lo, hi, st):
                if x is not None and not isinstance(x, int):
                    self.raise_builtin("TypeError", "slice indices must be integers")
            if isinstance(base, (list, tuple, str)):
                return base[slice(lo, hi, st)]
            raise Unsupported("slice of non-sequence")
        idx = self.eval(node.slice, env)
        return self.getitem(base, idx)

    def getitem(self, base, idx):
        if isinstance(base, (list, tuple, str)):
            if isinstance(idx, bool) or not isinstance(idx, int):
                self.raise_builtin("TypeError", "indices must be integers")
            try:
                return base[idx]
            except IndexError:
                self.raise_builtin("IndexError", "index out of range")
        if isinstance(base, dict):
            try:
                return base[idx]
            except KeyError:
                self.raise_builtin("KeyError", repr(idx))
            except TypeError:
                self.raise_builtin("TypeError", "unhashable")
        if isinstance(base, Obj):
            return self.call_dunder(base, "__getitem__", [idx])
        if isinstance(base, (BuiltinType, ExtRef, ClassRef)):
            return base   # typing subscripts such as list[int]
        self.raise_builtin("TypeError", "object is not subscriptable")

    def comprehension(self, node, env, emit):
        def rec(i, scope):
            if i == len(node.generators):
                emit(scope)
                return
            g = node.generators[i]
            for item in self.iterate(self.eval(g.iter, scope if i else env)):
                self.assign(g.target, item, scope)
                ok = True
                for cond in g.ifs:
                    if not self.truth(self.eval(cond, scope)):
                        ok = False
                        break
                if ok:
                    rec(i + 1, scope)
        rec(0, Env(env))

    def e_ListComp(self, node, env):
        out = []
        self.comprehension(node, env, lambda sc: out.append(self.eval(node.elt, sc)))
        return out

    def e_GeneratorExp(self, node, env):
        # generators are materialised eagerly (laziness is checked structurally, C02.eager)
        return OneShot(self.e_ListComp(node, env))

    def e_SetComp(self, node, env):
        out = set()
        self.comprehension(node, env, lambda sc: out.add(self.hashable(self.eval(node.elt, sc))))
        self.flags.add("set-built")
        return out

    def e_DictComp(self, node, env):
        out = {}

        def emit(sc):
            k = self.hashable(self.eval(node.key, sc))
            out[k] = self.eval(node.value, sc)
        self.comprehension(node, env, emit)
        return out

    def e_Call(self, node, env):
        f = self.eval(node.func, env)
        args = []
        for a in node.args:
            if isinstance(a, ast.Starred):
                args.extend(self.iterate(self.eval(a.value, env)))
            else:
                args.append(self.eval(a, env))
        kwargs = {}
        for kw in node.keywords:
            if kw.arg is None:
                d = self.eval(kw.value, env)
                if not isinstance(d, dict):
                    raise Unsupported("** of non-dict")
                for k, v in d.items():
                    if not isinstance(k, str):
                        self.raise_builtin("TypeError", "keywords must be strings")
                    if k in kwargs:
                        self.raise_builtin("TypeError", f"multiple values for keyword {k}")
                    kwargs[k] = v
            else:
                kwargs[kw.arg] = self.eval(kw.value, env)
        # zero-argument super()
        if isinstance(f, Builtin) and f.name == "super" and not args:
            fr = self.stack[-1]
            selfv, ok = env.lookup(fr.func.params[0]) if fr.func and fr.func.params else (None, False)
            if not ok or fr.cls is None:
                raise Unsupported("super() outside a method")
            return SuperProxy(selfv, fr.cls)
        return self.call(f, args, kwargs)

    # ------------------------------------------------------------ iteration
    def iterate(self, v) -> list:
        if isinstance(v, OneShot):
            if v.used:
                return []
            v.used = True
            return list(v)
        if isinstance(v, (list, tuple)):
            return list(v)
        if isinstance(v, str):
            return list(v)
        if isinstance(v, dict):
            return list(v.keys())
        if isinstance(v, (set, frozenset)):
            self.flags.add("set-iterated")
            return self.order_set(v)
        if isinstance(v, range):
            if len(v) > 100000:
                raise Unsupported("huge range")
            return list(v)
        if isinstance(v, Obj):
            it = self.model.resolve_method(v.cls, "__iter__")
            if it is not None:
                return self.iterate(self.call_function(it, [v], {}))
        self.raise_builtin("TypeError", f"object is not iterable: {v!r}")

    def order_set(self, v) -> list:
        """The iteration order of a set is unspecified (hash-seed dependent for strings); the
        interpreter can be run under several orders (C18)."""
        try:
            items = sorted(v)
        except TypeError:
            items = sorted(v, key=repr)
        mode = self.set_order
        if mode == "reversed":
            items.reverse()
        elif mode == "rotated" and len(items) > 1:
            items = items[1:] + items[:1]
        elif mode == "interleaved" and len(items) > 2:
            items = items[::2] + items[1::2]
        return items

    # ------------------------------------------------------------ assignment
    def assign(self, target, value, env: Env):
        if isinstance(target, ast.Name):
            env.vars[target.id] = value
        elif isinstance(target, (ast.Tuple, ast.List)):
            items = self.iterate(value)
            star = [i for i, t in enumerate(target.elts) if isinstance(t, ast.Starred)]
            if star:
                i = star[0]
                after = len(target.elts) - i - 1
                if len(items) < len(target.elts) - 1:
                    self.raise_builtin("ValueError", "not enough values to unpack")
                for t, v in zip(target.elts[:i], items[:i]):
                    self.assign(t, v, env)
                self.assign(target.elts[i].value, items[i:len(items) - after], env)
                for t, v in zip(target.elts[i + 1:], items[len(items) - after:]):
                    self.assign(t, v, env)
            else:
                if len(items) != len(target.elts):
                    self.raise_builtin("ValueError", "wrong number of values to unpack")
                for t, v in zip(target.elts, items):
                    self.assign(t, v, env)
        elif isinstance(target, ast.Attribute):
            obj = self.eval(target.value, env)
            self.setattr(obj, target.attr, value)
        elif isinstance(target, ast.Subscript):
            base = self.eval(target.value, env)
            if isinstance(target.slice, ast.Slice):
                if not isinstance(base, list):
                    self.raise_builtin("TypeError", "object does not support slice assignment")
                lo = self.eval(target.slice.lower, env) if target.slice.lower else None
                hi = self.eval(target.slice.upper, env) if target.slice.upper else None
                st = self.eval(target.slice.step, env) if target.slice.step else None
                for x in (lo, hi, st):
                    if x is not None and not isinstance(x, int):
                        self.raise_builtin("TypeError", "slice indices must be integers")
                try:
                    base[slice(lo, hi, st)] = self.iterate(value)
                except ValueError:
                    self.raise_builtin("ValueError", "attempt to assign sequence of wrong size to extended slice")
                return
            idx = self.eval(target.slice, env)
            if isinstance(base, list):
                if not isinstance(idx, int):
                    self.raise_builtin("TypeError", "list indices must be integers")
                try:
                    base[idx] = value
                except IndexError:
                    self.raise_builtin("IndexError", "list assignment index out of range")
            elif isinstance(base, dict):
                base[self.hashable(idx)] = value
            elif isinstance(base, Obj):
                self.call_dunder(base, "__setitem__", [idx, value])
            else:
                self.raise_builtin("TypeError", "object does not support item assignment")
        elif isinstance(target, ast.Starred):
            self.assign(target.value, value, env)
        else:
            raise Unsupported(f"assignment target {type(target).__name__}")

    def setattr(self, obj, name, value):
        if isinstance(obj, Obj):
            if self.attr_write_log is not None:
                fr = self.stack[-1] if self.stack else None
                self.attr_write_log.append((obj, name, fr.func.qualname if fr and fr.func else ""))
            obj.attrs[name] = value
            return
        self.raise_builtin("AttributeError", f"cannot set attribute {name}")


_CMP = {"Eq": "==", "NotEq": "!=", "Lt": "<", "LtE": "<=", "Gt": ">", "GtE": ">=",
        "Is": "is", "IsNot": "is not", "In": "in", "NotIn": "not in"}
