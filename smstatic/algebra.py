"""ALGEBRA: canonical forms for the closed-form real terms that appear as value formulas,
derivative rules and rewrite-rule sides.

A term is a nested tuple:
    ('h', name)            a hole (an arbitrary real; its sign is fixed by the sign assignment)
    ('c', number)          a rational / float constant          ('e',)  Euler's number
    ('add', t...) ('mul', t...) ('neg', t) ('div', a, b)
    ('powi', a, n)         integer power, any real base (n may be negative)
    ('pow', a, b)          real power exp(b ln a), base must be > 0
    ('root', a, n)         real n-th root keeping the sign for odd n (specification head)
    ('sqrt', a) ('cbrt', a) ('ln', a) ('log', a, base) ('exp', a) ('sin', a) ('cos', a)

Canonical form: polynomial (dict monomial -> Fraction) over *positive* generators with
rational exponents.  Signs of holes are made explicit by instantiating a hole h as +a_h,
-a_h or 0 (a_h a positive atom), so that roots, logarithms and real powers of monomials are
decided *defined or undefined* on the spot.  Identities used (complete list): AC/unit/zero
of + and *, distributivity, g^p g^q = g^(p+q), (g^p)^q = g^(pq) for positive g, (-1)^k by
parity, exp(P+Q) = exp P exp Q (exp is always split over sums of monic monomials),
exp(q ln g) = g^q, ln(c prod g_i^q_i) = ln c + sum q_i ln g_i, ln e = 1, ln 1 = 0,
b^x = exp(x ln b), log_b x = ln x / ln b, rational constants factored into primes,
sin(-P) = -sin P, cos(-P) = cos P.  Equal canonical forms => equal real functions on the
sign region; unequal forms prove nothing (the caller refutes numerically or is inconclusive).
"""
from __future__ import annotations
import math
from fractions import Fraction

ZERO = Fraction(0)
ONE = Fraction(1)


class Undefined(Exception):
    """The term is decided undefined under the sign assignment (e.g. ln of a negative monomial)."""


class TooHard(Exception):
    """The normaliser cannot represent the term (never a verdict by itself)."""


_SMALL_PRIMES = []


def _primes():
    global _SMALL_PRIMES
    if not _SMALL_PRIMES:
        n = 2000
        sieve = bytearray([1]) * (n + 1)
        sieve[0:2] = b"\x00\x00"
        for i in range(2, int(n ** 0.5) + 1):
            if sieve[i]:
                sieve[i * i::i] = bytearray(len(sieve[i * i::i]))
        _SMALL_PRIMES = [i for i in range(n + 1) if sieve[i]]
    return _SMALL_PRIMES


def factor_int(n: int) -> dict:
    """n >= 1 -> {prime_or_cofactor: exponent}; a large unfactored cofactor is kept whole."""
    out = {}
    if n <= 1:
        return out
    for p in _primes():
        if p * p > n:
            break
        while n % p == 0:
            out[p] = out.get(p, 0) + 1
            n //= p
    if n > 1:
        out[n] = out.get(n, 0) + 1
    return out


def to_fraction(v) -> Fraction:
    if isinstance(v, Fraction):
        return v
    if isinstance(v, bool):
        return Fraction(int(v))
    if isinstance(v, int):
        return Fraction(v)
    if isinstance(v, float):
        if math.isnan(v) or math.isinf(v):
            raise TooHard("non-finite constant")
        return Fraction(v)
    raise TooHard(f"constant of type {type(v).__name__}")


def _gkey(g):
    return repr(g)


def mono_mul(m1, m2):
    d = {}
    for g, e in m1:
        d[g] = d.get(g, ZERO) + e
    for g, e in m2:
        d[g] = d.get(g, ZERO) + e
    return tuple(sorted(((g, e) for g, e in d.items() if e != 0), key=lambda ge: _gkey(ge[0])))


def mono_pow(m, q: Fraction):
    return tuple((g, e * q) for g, e in m if e * q != 0)


def p_norm(p: dict) -> dict:
    """Bring constant generators ('k', prime) to exponents in [0, 1): the integer part of the
    exponent is moved into the rational coefficient (2^(-1/2) = 1/2 * 2^(1/2))."""
    if not any(g[0] == "k" and not (0 < e < 1) for m in p for g, e in m):
        return p
    out = {}
    for m, c in p.items():
        coeff = c
        gens = []
        for g, e in m:
            if g[0] == "k":
                whole = e.numerator // e.denominator
                frac = e - whole
                if whole:
                    coeff *= Fraction(g[1]) ** whole
                if frac:
                    gens.append((g, frac))
            else:
                gens.append((g, e))
        mm = tuple(sorted(gens, key=lambda ge: _gkey(ge[0])))
        v = out.get(mm, ZERO) + coeff
        if v == 0:
            out.pop(mm, None)
        else:
            out[mm] = v
    return out


def pkey(p: dict):
    p = p_norm(p)
    return tuple(sorted(p.items(), key=lambda kv: repr(kv[0])))


def p_const(c) -> dict:
    c = to_fraction(c)
    return {(): c} if c != 0 else {}


def p_atom(g, e=ONE) -> dict:
    return {((g, Fraction(e)),): ONE}


def p_add(p, q) -> dict:
    out = dict(p)
    for m, c in q.items():
        v = out.get(m, ZERO) + c
        if v == 0:
            out.pop(m, None)
        else:
            out[m] = v
    return out


def p_scale(p, c: Fraction) -> dict:
    if c == 0:
        return {}
    return {m: v * c for m, v in p.items()}


def p_neg(p) -> dict:
    return {m: -v for m, v in p.items()}


def p_mul(p, q) -> dict:
    out = {}
    if len(p) * len(q) > 4000:
        raise TooHard("polynomial product too large")
    for m1, c1 in p.items():
        for m2, c2 in q.items():
            m = mono_mul(m1, m2)
            v = out.get(m, ZERO) + c1 * c2
            if v == 0:
                out.pop(m, None)
            else:
                out[m] = v
    return out


POSITIVE_GEN_KINDS = ("a", "E", "k", "exp", "lnc")


def gen_positive(g) -> bool:
    return g[0] in POSITIVE_GEN_KINDS


def sign_of(p: dict):
    """'+', '-', '0' or None."""
    p = p_norm(p)
    if not p:
        return "0"
    signs = set()
    for m, c in p.items():
        for g, e in m:
            if not gen_positive(g):
                # a generator of unknown sign: only an even integer exponent helps
                if e.denominator == 1 and e.numerator % 2 == 0:
                    continue
                return None
        signs.add("+" if c > 0 else "-")
    if len(signs) == 1:
        # caution: a generator of unknown sign with even exponent may be zero -> then the
        # monomial is >= 0, not > 0.  Report a strict sign only if every generator is positive.
        for m in p:
            for g, e in m:
                if not gen_positive(g):
                    return None
        return signs.pop()
    return None


def split_content(p: dict):
    """p = c * p' with p' having leading coefficient 1 (first monomial in sort order)."""
    items = sorted(p.items(), key=lambda kv: repr(kv[0]))
    c0 = items[0][1]
    return c0, {m: v / c0 for m, v in p.items()}


def factor_monomial(p: dict):
    """p = m * p' where m is the largest monomial of *positive* generators dividing every
    term (exponents may be negative: the minimum exponent is taken).  -> (m, p')"""
    if len(p) < 2:
        return (), p
    common = None
    for mono in p:
        d = {g: e for g, e in mono if gen_positive(g)}
        if common is None:
            common = d
        else:
            common = {g: min(e, d[g]) for g, e in common.items() if g in d}
        if not common:
            return (), p
    m = tuple(sorted(((g, e) for g, e in common.items() if e != 0), key=lambda ge: _gkey(ge[0])))
    if not m:
        return (), p
    inv = mono_pow(m, Fraction(-1))
    return m, {mono_mul(mono, inv): c for mono, c in p.items()}


def const_pow(c: Fraction, q: Fraction) -> dict:
    """c ** q for rational c > 0 as a canonical monomial."""
    if c <= 0:
        raise TooHard("const_pow of non-positive constant")
    if q.denominator == 1:
        return p_const(c ** int(q))
    exps = {}
    for pr, k in factor_int(c.numerator).items():
        exps[pr] = exps.get(pr, ZERO) + k * q
    for pr, k in factor_int(c.denominator).items():
        exps[pr] = exps.get(pr, ZERO) - k * q
    coeff = ONE
    mono = ()
    for pr, e in exps.items():
        whole = e.numerator // e.denominator      # floor
        frac = e - whole
        coeff *= Fraction(pr) ** whole
        if frac != 0:
            mono = mono_mul(mono, ((("k", pr), frac),))
    return {mono: coeff}


class Canon:
    """Canonicaliser for one sign assignment of the holes."""

    def __init__(self, signs: dict):
        self.signs = signs              # hole name -> '+', '-', '0'
        self.obligations = set()        # (polykey, '>0' | '!=0' | '>=0') left undecided

    # ------------------------------------------------------------- helpers
    def inv(self, p: dict) -> dict:
        if not p:
            raise Undefined("division by zero")
        if len(p) == 1:
            (m, c), = p.items()
            for g, e in m:
                if not gen_positive(g):
                    self.obligations.add((pkey(p_atom(g)), "!=0"))
            return {mono_pow(m, Fraction(-1)): 1 / c}
        m, rest = factor_monomial(p)
        c0, prim = split_content(rest)
        if c0 < 0:
            c0, prim = -c0, p_neg(prim)     # p = |c0| * m * prim, prim keeps the sign of p (same convention as ln / pow_rat)
        if sign_of(p) is None:
            self.obligations.add((pkey(prim), "!=0"))
        return {mono_mul(mono_pow(m, Fraction(-1)), ((("pw", pkey(prim)), Fraction(-1)),)): 1 / c0}

    def pow_rat(self, p: dict, q: Fraction) -> dict:
        if q.denominator == 1:
            n = int(q)
            if n == 0:
                return p_const(1)
            if n < 0:
                return self.inv(self.pow_rat(p, Fraction(-n)))
            if not p:
                return {}
            if len(p) == 1:
                (m, c), = p.items()
                return {mono_pow(m, q): c ** n}
            if n > 24:
                raise TooHard("large power of a sum")
            out = p_const(1)
            for _ in range(n):
                out = p_mul(out, p)
            return out
        s = sign_of(p)
        if s in ("0", "-"):
            raise Undefined(f"non-integer power of a {'zero' if s == '0' else 'negative'} base")
        if s == "+" and len(p) == 1:
            (m, c), = p.items()
            return p_mul(const_pow(c, q), {mono_pow(m, q): ONE})
        m, rest = factor_monomial(p)
        c0, prim = split_content(rest)
        if s is None:
            self.obligations.add((pkey(p), ">0"))
        if c0 < 0:
            prim = p_neg(prim)
            c0 = -c0
        return p_mul(const_pow(c0, q), {mono_mul(mono_pow(m, q), ((("pw", pkey(prim)), q),)): ONE})

    def root(self, p: dict, n: int) -> dict:
        if n == 1:
            return p
        if n <= 0:
            raise Undefined("root of non-positive degree")
        s = sign_of(p)
        if s == "0":
            return {}
        if s == "+":
            return self.pow_rat(p, Fraction(1, n))
        if s == "-":
            if n % 2 == 0:
                raise Undefined("even root of a negative quantity")
            return p_neg(self.pow_rat(p_neg(p), Fraction(1, n)))
        if n % 2 == 0:
            self.obligations.add((pkey(p), ">=0"))
            return self.pow_rat(p, Fraction(1, n))
        return p_atom(("oddroot", pkey(p), n))

    def ln_gen(self, g) -> dict:
        k = g[0]
        if k == "E":
            return p_const(1)
        if k == "k":
            return p_atom(("lnc", g[1]))
        if k == "exp":
            return {g[1]: ONE}
        if k == "a":
            return p_atom(("ln", g))
        if k == "pw":
            return p_atom(("ln", ("P", g[1])))
        return p_atom(("ln", g))

    def ln_const(self, c: Fraction) -> dict:
        if c == 1:
            return {}
        primes = set(factor_int(c.numerator)) | set(factor_int(c.denominator))
        if len(primes) > 1:
            # a composite constant: ln c is kept as one positive atom (splitting it into a sum of
            # prime logarithms would put sums into denominators); ln(1/c) = -ln c
            if c > 1:
                return p_atom(("lnc", c))
            return p_neg(p_atom(("lnc", 1 / c)))
        out = {}
        for pr, k in factor_int(c.numerator).items():
            out = p_add(out, p_scale(p_atom(("lnc", pr)), Fraction(k)))
        for pr, k in factor_int(c.denominator).items():
            out = p_add(out, p_scale(p_atom(("lnc", pr)), Fraction(-k)))
        return out

    def ln(self, p: dict) -> dict:
        s = sign_of(p)
        if s in ("0", "-"):
            raise Undefined("logarithm of a non-positive quantity")
        if s == "+" and len(p) == 1:
            (m, c), = p.items()
            out = self.ln_const(c)
            for g, e in m:
                out = p_add(out, p_scale(self.ln_gen(g), e))
            return out
        if s is None and len(p) == 1:
            (m1, c1), = p.items()
            if c1 > 0 and all(gen_positive(g) or g[0] == "pw" for g, _e in m1):
                # ln(c * prod g^e) with opaque polynomial powers: valid when each base is positive
                out = self.ln_const(c1)
                for g, e in m1:
                    if g[0] == "pw":
                        self.obligations.add((g[1], ">0"))
                    out = p_add(out, p_scale(self.ln_gen(g), e))
                return out
        if s is None:
            self.obligations.add((pkey(p), ">0"))
        m, rest = factor_monomial(p)
        c0, prim = split_content(rest)
        if c0 < 0:
            c0, prim = -c0, p_neg(prim)
        out = p_add(self.ln_const(c0), p_atom(("ln", ("P", pkey(prim)))))
        for g, e in m:
            out = p_add(out, p_scale(self.ln_gen(g), e))
        return out

    def exp(self, p: dict) -> dict:
        out = p_const(1)
        for m, c in p.items():
            if m == ():
                out = p_mul(out, p_atom(("E",), c))
            elif len(m) == 1 and m[0][1] == 1 and m[0][0][0] == "ln":
                inner = m[0][0][1]
                if inner[0] == "P":
                    out = p_mul(out, p_atom(("pw", inner[1]), c))
                else:
                    out = p_mul(out, p_atom(inner, c))
            elif len(m) == 1 and m[0][1] == 1 and m[0][0][0] == "lnc":
                out = p_mul(out, const_pow(Fraction(m[0][0][1]), c))
            else:
                out = p_mul(out, p_atom(("exp", m), c))
        return out

    def trig(self, head: str, p: dict) -> dict:
        if not p:
            return {} if head == "sin" else p_const(1)
        c0, _ = split_content(p)
        if c0 < 0:
            q = p_neg(p)
            r = p_atom((head, pkey(q)))
            return p_neg(r) if head == "sin" else r
        return p_atom((head, pkey(p)))

    # ------------------------------------------------------------- main
    def canon(self, t) -> dict:
        h = t[0]
        if h == "h":
            s = self.signs.get(t[1], "+")
            if s == "0":
                return {}
            a = p_atom(("a", t[1]))
            return a if s == "+" else p_neg(a)
        if h == "c":
            v = t[1]
            if isinstance(v, float) and v == math.e:
                return p_atom(("E",))
            return p_const(v)
        if h == "e":
            return p_atom(("E",))
        if h == "add":
            out = {}
            for x in t[1:]:
                out = p_add(out, self.canon(x))
            return out
        if h == "mul":
            # evaluate every factor first: an undefined factor makes the product undefined
            parts = [self.canon(x) for x in t[1:]]
            out = p_const(1)
            for q in parts:
                out = p_mul(out, q)
            return out
        if h == "neg":
            return p_neg(self.canon(t[1]))
        if h == "div":
            a = self.canon(t[1])
            b = self.canon(t[2])
            return p_mul(a, self.inv(b))
        if h == "powi":
            return self.pow_rat(self.canon(t[1]), Fraction(int(t[2])))
        if h == "pow":
            a = self.canon(t[1])
            b = self.canon(t[2])
            s = sign_of(a)
            if s in ("0", "-"):
                raise Undefined("real power of a non-positive base")
            if s is None:
                self.obligations.add((pkey(a), ">0"))
            if len(b) <= 1 and (not b or () in b):
                return self.pow_rat(a, b.get((), ZERO))
            return self.exp(p_mul(b, self.ln(a)))
        if h == "root":
            return self.root(self.canon(t[1]), int(t[2]))
        if h == "sqrt":
            a = self.canon(t[1])
            if sign_of(a) == "-":
                raise Undefined("sqrt of a negative quantity")
            return self.root(a, 2)
        if h == "cbrt":
            return self.root(self.canon(t[1]), 3)
        if h == "ln":
            return self.ln(self.canon(t[1]))
        if h == "log":
            a = self.ln(self.canon(t[1]))
            b = self.ln(self.canon(t[2]))
            return p_mul(a, self.inv(b))
        if h == "exp":
            return self.exp(self.canon(t[1]))
        if h in ("sin", "cos"):
            return self.trig(h, self.canon(t[1]))
        if h == "abs":
            a = self.canon(t[1])
            s = sign_of(a)
            if s in ("+", "0"):
                return a
            if s == "-":
                return p_neg(a)
            return p_atom(("abs", pkey(a)))
        raise TooHard(f"unknown term head {h!r}")


def canon(term, signs: dict):
    """-> (poly, obligations).  Raises Undefined / TooHard."""
    c = Canon(signs)
    p = p_norm(c.canon(term))
    return p, c.obligations


def has_head(term, head: str) -> bool:
    if not isinstance(term, tuple) or not term:
        return False
    if term[0] == head:
        return True
    return any(has_head(x, head) for x in term[1:] if isinstance(x, tuple))


def holes_of(term, acc=None) -> list:
    acc = [] if acc is None else acc
    if isinstance(term, tuple):
        if term and term[0] == "h":
            if term[1] not in acc:
                acc.append(term[1])
        else:
            for x in term[1:]:
                holes_of(x, acc)
    return acc


# ------------------------------------------------------------------ numeric model
def numeval(t, env: dict) -> float:
    """Evaluate a term in the rule model (our own semantics of the heads, not smoothmath)."""
    h = t[0]
    if h == "h":
        return float(env[t[1]])
    if h == "c":
        return float(t[1])
    if h == "e":
        return math.e
    if h == "add":
        return math.fsum(numeval(x, env) for x in t[1:])
    if h == "mul":
        vals = [numeval(x, env) for x in t[1:]]
        out = 1.0
        for v in vals:
            out *= v
        return out
    if h == "neg":
        return -numeval(t[1], env)
    if h == "div":
        a, b = numeval(t[1], env), numeval(t[2], env)
        if b == 0:
            raise Undefined("division by zero")
        return a / b
    if h == "powi":
        a = numeval(t[1], env)
        n = int(t[2])
        if n < 0 and a == 0:
            raise Undefined("zero to a negative power")
        return a ** n
    if h == "pow":
        a, b = numeval(t[1], env), numeval(t[2], env)
        if a <= 0:
            raise Undefined("real power of non-positive base")
        return a ** b
    if h == "root":
        a, n = numeval(t[1], env), int(t[2])
        if n == 1:
            return a
        if a < 0:
            if n % 2 == 0:
                raise Undefined("even root of negative")
            return -((-a) ** (1.0 / n))
        return a ** (1.0 / n)
    if h == "sqrt":
        a = numeval(t[1], env)
        if a < 0:
            raise Undefined("sqrt of negative")
        return math.sqrt(a)
    if h == "cbrt":
        a = numeval(t[1], env)
        return math.copysign(abs(a) ** (1.0 / 3.0), a)
    if h == "ln":
        a = numeval(t[1], env)
        if a <= 0:
            raise Undefined("ln of non-positive")
        return math.log(a)
    if h == "log":
        a, b = numeval(t[1], env), numeval(t[2], env)
        if a <= 0 or b <= 0 or b == 1:
            raise Undefined("log undefined")
        return math.log(a) / math.log(b)
    if h == "exp":
        return math.exp(numeval(t[1], env))
    if h == "sin":
        return math.sin(numeval(t[1], env))
    if h == "cos":
        return math.cos(numeval(t[1], env))
    if h == "abs":
        return abs(numeval(t[1], env))
    if h == "round":
        return float(round(numeval(t[1], env)))
    raise TooHard(f"unknown term head {h!r}")


SAMPLE_MAGNITUDES = [0.37, 1.7, 2.3, 0.61, 3.1, 0.83, 1.21, 4.7, 0.29, 2.9, 1.43, 0.53]


def compare_terms(t1, t2, signs: dict, seed: int = 0, region_env=None):
    """Decide whether two terms denote the same real number on the sign region.

    returns ('equal', None) | ('differ', witness) | ('undef1', reason) | ('undef2', reason)
          | ('both-undef', None) | ('unknown', reason)
    'equal' only from identical canonical forms; 'differ' only with a numeric counter-instance
    evaluated in the rule model."""
    u1 = u2 = None
    p1 = p2 = None
    hard = None
    try:
        p1, _ = canon(t1, signs)
    except Undefined as e:
        u1 = str(e)
    except TooHard as e:
        hard = str(e)
    try:
        p2, _ = canon(t2, signs)
    except Undefined as e:
        u2 = str(e)
    except TooHard as e:
        hard = str(e)
    if u1 and u2:
        return ("both-undef", None)
    if u1 and p2 is not None:
        return ("undef1", u1)
    if u2 and p1 is not None:
        return ("undef2", u2)
    if hard is None and p1 is not None and p2 is not None and p1 == p2:
        return ("equal", None)
    # numeric refutation in the rule model
    names = sorted(set(holes_of(t1)) | set(holes_of(t2)))
    differ = None
    agree = 0
    small = []      # relative differences below the coarse threshold, with their witnesses
    for k in range(3):
        env = {}
        for i, nm in enumerate(names):
            if region_env and nm in region_env and region_env[nm][k % len(region_env[nm])] is not None:
                env[nm] = region_env[nm][k % len(region_env[nm])]
                continue
            mag = SAMPLE_MAGNITUDES[(seed + 5 * k + 3 * i) % len(SAMPLE_MAGNITUDES)]
            s = signs.get(nm, "+")
            env[nm] = 0.0 if s == "0" else (mag if s == "+" else -mag)
        try:
            v1 = numeval(t1, env)
            v2 = numeval(t2, env)
        except (Undefined, TooHard, OverflowError, ValueError, ZeroDivisionError):
            continue
        scale = max(abs(v1), abs(v2), 1e-200)
        if abs(v1 - v2) / scale > 1e-6:
            differ = {"at": env, "values": [v1, v2]}
            break
        if abs(v1 - v2) / scale < 1e-11:
            agree += 1
        small.append((abs(v1 - v2) / scale, {"at": env, "values": [v1, v2]}))
    if differ:
        return ("differ", differ)
    if len(small) >= 2 and min(r for r, _w in small) > 1e-10:
        # a disagreement of 1e-10 .. 1e-6 relative at EVERY sample point is not rounding of the model
        # evaluation (which is ~1e-15): e.g. a mistyped constant
        return ("differ", max(small, key=lambda rw: rw[0])[1])
    if agree == 3:
        return ("unknown", hard or "canonical forms differ but the model evaluation agrees "
                                   "(normaliser incomplete here)")
    return ("unknown", hard or "could not compare")


def show_poly(p: dict) -> str:
    if not p:
        return "0"
    parts = []
    for m, c in sorted(p.items(), key=lambda kv: repr(kv[0])):
        gens = "*".join(f"{_show_gen(g)}^{e}" if e != 1 else _show_gen(g) for g, e in m)
        parts.append(f"{c}" + ("*" + gens if gens else ""))
    return " + ".join(parts)


def _show_gen(g) -> str:
    k = g[0]
    if k == "a":
        return f"|{g[1]}|"
    if k == "E":
        return "e"
    if k == "k":
        return str(g[1])
    if k == "lnc":
        return f"ln{g[1]}"
    if k == "ln":
        return f"ln({_show_gen(g[1]) if isinstance(g[1], tuple) and g[1] and isinstance(g[1][0], str) else g[1]})"
    if k == "exp":
        return "exp(" + "*".join(f"{_show_gen(x)}^{e}" if e != 1 else _show_gen(x) for x, e in g[1]) + ")"
    return str(g)


def show_term(t) -> str:
    h = t[0]
    if h == "h":
        return t[1]
    if h == "c":
        v = t[1]
        return str(v)
    if h == "e":
        return "e"
    if h in ("add", "mul"):
        op = " + " if h == "add" else "*"
        return "(" + op.join(show_term(x) for x in t[1:]) + ")" if len(t) > 1 else ("0" if h == "add" else "1")
    if h == "neg":
        return f"-({show_term(t[1])})"
    if h == "div":
        return f"({show_term(t[1])})/({show_term(t[2])})"
    if h == "powi":
        return f"({show_term(t[1])})^{t[2]}"
    if h == "pow":
        return f"({show_term(t[1])})^({show_term(t[2])})"
    if h == "root":
        return f"root{t[2]}({show_term(t[1])})"
    if h == "log":
        return f"log[{show_term(t[2])}]({show_term(t[1])})"
    return f"{h}(" + ", ".join(show_term(x) if isinstance(x, tuple) else str(x) for x in t[1:]) + ")"
