"""C15 -- operator syntax builds exactly the named constructors."""
from __future__ import annotations
import math
from ..model import load_model
from ..harness import build, cref, run_paths, exc_name, exc_origin
from ..evalengine import pmap
from ..objengine import tree_equal, make_point_concrete
from ..derivengine import obj_to_tree
from ..values import SymNum, Obj
from .. import spec

OPS = {"neg": None, "+": "Add", "-": "Sub", "*": "Mult", "/": "Div", "**": "Pow"}


def lift(v):
    return SymNum.of(v) if isinstance(v, float) else v


def op_case(args):
    op, a_tree, b = args
    model = load_model()

    def operand(it, v):
        if isinstance(v, tuple) and v and v[0] in spec.ALL_CLASSES:
            return build(it, v, {})
        if v == "POINT":
            return make_point_concrete(it, {})
        if v == "REFLECTING":
            from ..values import ForeignReflecting
            return ForeignReflecting()
        if isinstance(v, tuple) and v and v[0] == "REFLECTED":
            return v
        return lift(v)

    def thunk(it):
        a = build(it, a_tree, {})
        if op == "neg":
            r = it.neg(a)
        else:
            bv = operand(it, b)
            if isinstance(bv, tuple) and bv and bv[0] == "REFLECTED":
                r = it.binop(OPS[op], lift(bv[1]), a)
            else:
                r = it.binop(OPS[op], a, bv)
        if not isinstance(r, Obj):
            return ("NOT-AN-EXPRESSION", repr(r)), repr(r)
        t = obj_to_tree(it, r)
        # the operator result must also compare equal to the constructor-built object
        return t, it.to_repr(r)
    outs = run_paths(model, thunk, max_paths=2, generic_only=True)
    o = outs[0]
    if o["kind"] == "raise":
        return {"outcome": "raise", "exc": exc_name(o["exc"]), "origin": exc_origin(o["exc"])}
    if o["kind"] != "return":
        return {"outcome": "unsupported", "reason": o["msg"]}
    return {"outcome": "built", "tree": o["value"][0], "repr": o["value"][1]}


def check(rep):
    model = load_model()
    x, y = ("Variable", "x"), ("Variable", "y")
    operands = [x, ("Constant", 0), ("Constant", 1), ("Add", [x, y]), ("Negation", x), ("Multiply", [x, ("Constant", 1)]),
                ("Reciprocal", y), ("NthPower", x, 2), ("Power", x, y), ("Minus", x, y),
                # constants with values that invite special cases
                ("Constant", math.e), ("Constant", 2), ("Constant", -1), ("Constant", 0.5), ("Constant", 10),
                ("Constant", -0.0)]
    cases = []
    for a in operands:
        cases.append(("neg", a, None, ("Negation", a)))
        # (exponent expressions that look like something simpler: 1/n, 1/x, a bare number in a Constant)
        exponent_like = [("Divide", ("Constant", 1), ("Constant", 2)), ("Divide", ("Constant", 1), ("Constant", 3.0)),
                         ("Reciprocal", ("Constant", 2)), ("Constant", 3), ("Negation", ("Constant", 1)),
                         ("Divide", x, ("Constant", 2))]
        for b in operands[:7] + operands[10:13] + exponent_like:
            cases.append(("+", a, b, ("Add", [a, b])))
            cases.append(("-", a, b, ("Minus", a, b)))
            cases.append(("*", a, b, ("Multiply", [a, b])))
            cases.append(("/", a, b, ("Divide", a, b)))
            cases.append(("**", a, b, ("Power", a, b)))
        # (integers no float can hold exactly must arrive unchanged)
        for k in (1, 2, 3, 7, 1.0, 2.0, 12.0, 2 ** 53 + 1, 10 ** 23, 10 ** 400):
            cases.append(("**", a, k, ("NthPower", a, int(k))))
    bad_exponents = [0, -1, -3, 2.5, 0.5, -2.0, 0.0, math.inf, "2", None, "POINT",
                     2.000000001, 1.9999999999999998, 2.0000000000001, 3 - 1e-12, 1e-15 + 1]
    bad_operands = [3, 2.5, "x", None, "POINT", 0, 1, "REFLECTING"]
    for a in operands[:3]:
        for e in bad_exponents + ["REFLECTING"]:
            cases.append(("**", a, e, None))
        for op in ("+", "-", "*", "/"):
            for b in bad_operands:
                cases.append((op, a, b, None))
                if b not in ("POINT", "REFLECTING"):
                    cases.append((op, a, ("REFLECTED", b), None))
        for b in (3, 2.0):
            cases.append(("**", a, ("REFLECTED", b), None))
    results = pmap(op_case, [(op, a, b) for (op, a, b, _w) in cases], chunksize=8)
    per = {}
    dunder = {"neg": "__neg__", "+": "__add__", "-": "__sub__", "*": "__mul__", "/": "__truediv__", "**": "__pow__"}
    for (op, a, b, want), r in zip(cases, results):
        construct = f"Expression.{dunder[op]}"
        key = (construct, "builds" if want else "rejects")
        d = per.setdefault(key, [0, 0])
        d[0] += 1
        shown_b = spec.show(b) if isinstance(b, tuple) and b and b[0] in spec.ALL_CLASSES else (
            "<a foreign object whose class implements permissive reflected operators>" if b == "REFLECTING" else repr(b))
        desc = f"-({spec.show(a)})" if op == "neg" else (
            f"{b[1]!r} {op} ({spec.show(a)})" if isinstance(b, tuple) and b and b[0] == "REFLECTED"
            else f"({spec.show(a)}) {op} {shown_b}")
        if r["outcome"] == "unsupported":
            rep.unknown("C15.wiring", construct, "", f"{desc}: {r['reason']}")
            continue
        if want is None:
            if r["outcome"] != "raise":
                rep.violation("C15.no-coercion", construct, "",
                              f"{desc} must be rejected with an exception but built {r.get('repr')}",
                              witness_class=f"coerced {op} {type(b).__name__ if not isinstance(b, tuple) else 'reflected'}")
            else:
                d[1] += 1
            continue
        if r["outcome"] == "raise":
            rep.violation("C15.wiring", construct, r.get("origin", ""),
                          f"{desc} raised {r['exc']} instead of building {spec.show(want)}",
                          witness_class=f"raised {op}")
        elif not tree_equal(r["tree"], want):
            rep.violation("C15.wiring", construct, "",
                          f"{desc} built {r['repr']} instead of exactly {spec.show(want)}",
                          witness_class=f"different {op} -> {r['tree'][0]}")
        else:
            d[1] += 1
    for (construct, what), (n, good) in sorted(per.items()):
        if n == good:
            rep.ok("C15.wiring" if what == "builds" else "C15.no-coercion", f"{construct} {what}", "",
                   f"{n} operand combinations", cases=n)
    rep.sample({"exponents rejected": [repr(e) for e in bad_exponents]})
    from ..structure import check_no_coercing_dunders
    check_no_coercing_dunders(rep, model, "C15.no-coercion")
    rep.require_floor("C15.wiring", 6, "operators")
    rep.require_floor("C15.no-coercion", 5, "operators")
    return rep.finish(
        explanation="-a, a+b, a-b, a*b, a/b, a**b and a**k are interpreted abstractly from source for operands of many "
                    "shapes (including ones a simplifier would touch: 0, 1, nested sums, double negation) and every "
                    "exponent class; the object built is read back through its structural fields and must be exactly "
                    "Negation(a), Add(a,b), Minus(a,b), Multiply(a,b), Divide(a,b), Power(a,b), NthPower(a,k) -- no "
                    "simplification, no reordering. Non-expression operands on either side (reflected operators "
                    "included), and exponents that are zero, negative, non-integral, infinite or not numbers must raise.",
        technique="static abstract interpretation of the operator dunders over operand/exponent classes",
        exhaustive=False)
