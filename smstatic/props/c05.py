"""C05 -- symbolic derivatives denote the true derivative on the original's domain."""
from __future__ import annotations
from ..model import load_model
from ..harness import partition, valuations
from ..evalengine import depth1_instances, constant_child_instances, pmap, param_class, region_class
from ..derivcommon import run_derivative_property, chain_instances
from ..derivengine import EXPR_ROUTES, second_order_group
from .. import spec


def check_second_order(rep):
    """differentiating the returned expression once more yields the true second-order partial"""
    model = load_model()
    tier = rep.tier
    atoms = partition(model, "quick")
    inst, _ = depth1_instances(model, "quick")
    inst = [(t, l) for (t, l) in inst if t[0] != "Constant"]
    inst += [(t, l) for (t, l) in chain_instances(model, "quick") if "NthRoot[" not in l and "NthPower[" not in l]
    inst += constant_child_instances(model, "quick")
    tasks = []
    for tree, label in inst:
        names = spec.variables(tree)
        if not names or len(names) > 2:
            continue
        vals = list(valuations(names, atoms))
        pairs = [(a, b) for a in names for b in names]
        if tier == "quick":
            pairs = pairs[:1] + pairs[1:2]
        for (v1, v2) in pairs:
            for early in ((False,) if tier == "quick" else (False, True)):
                tasks.append(((tree, v1, v2, vals, early), label))
    results = pmap(second_order_group, [a for (a, _l) in tasks], chunksize=1)
    per = {}
    for ((tree, v1, v2, vals, early), label), outs in zip(tasks, results):
        d = per.setdefault(label, [0, 0])
        for out in outs:
            if "skip" in out:
                continue
            d[0] += 1
            st = out["status"]
            construct = f"{label}: d2/d{v1}d{v2}" + (" (early)" if early else "")
            desc = f"{out['tree']} d2/d{v1}d{v2} at {{{out['val']}}}"
            if st == "ok" or st == "unjudged":
                d[1] += 1
            elif st == "unsupported":
                rep.unknown("C05.second-order", construct, "", out["reason"])
            elif st == "value-unknown":
                rep.unknown("C05.second-order", construct, "", f"{desc}: {out['reason']}")
            elif st == "raised":
                rep.violation("C05.second-order", construct, out.get("origin", ""),
                              f"{desc}: differentiating the returned derivative again raised {out['exc']} although the "
                              f"original is defined there", witness_class=f"raised {out['exc']} {param_class(tree)}")
            else:
                w = out["witness"]
                rep.violation("C05.second-order", construct, "",
                              f"{desc}: Partial(Partial(e, {v1}).as_expression(), {v2}).at(p) = {out.get('got')} differs from the "
                              f"true second-order partial, e.g. at {w['at']}: {w['values'][0]:.6g} vs {w['values'][1]:.6g}",
                              witness_class=f"value-differs {param_class(tree)}")
    for label, (n, good) in sorted(per.items()):
        if n and n == good:
            rep.ok("C05.second-order", label, "", f"{n} region cases: the derivative of the returned derivative is the "
                   f"second specification derivative", cases=n)


def check(rep):
    run_derivative_property(rep, "C05", routes=[], expr_routes=list(EXPR_ROUTES), judge_mode="expr",
                            explanation="")
    check_second_order(rep)
    rep.require_floor("C05.expr", 60, "class/route combinations")
    rep.require_floor("C05.second-order", 15, "instance families")
    return rep.finish(
        explanation="as_expression() of Partial, Derivative and Differential components (forward builder and "
                    "reverse builder with symbolic multipliers, early and late, each followed by the library's "
                    "own normalisation) is interpreted abstractly from source; the returned expression object is "
                    "read back through its structural fields and must (a) be well-formed (n >= 1 integers, legal "
                    "bases), (b) mention no variable the original lacks, (c) be defined on every sign region "
                    "where the original is defined, (d) have the canonical form of the specification derivative.",
        technique="static abstract interpretation + canonical-form algebra", exhaustive=True)
