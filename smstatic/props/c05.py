"""C05 -- symbolic derivatives denote the true derivative on the original's domain."""
from __future__ import annotations
from ..derivcommon import run_derivative_property
from ..derivengine import EXPR_ROUTES


def check(rep):
    run_derivative_property(rep, "C05", routes=[], expr_routes=list(EXPR_ROUTES), judge_mode="expr",
                            explanation="")
    rep.require_floor("C05.expr", 60, "class/route combinations")
    return rep.finish(
        explanation="as_expression() of Partial, Derivative and Differential components (forward builder and "
                    "reverse builder with symbolic multipliers, early and late, each followed by the library's "
                    "own normalisation) is interpreted abstractly from source; the returned expression object is "
                    "read back through its structural fields and must (a) be well-formed (n >= 1 integers, legal "
                    "bases), (b) mention no variable the original lacks, (c) be defined on every sign region "
                    "where the original is defined, (d) have the canonical form of the specification derivative.",
        technique="static abstract interpretation + canonical-form algebra", exhaustive=True)
