"""C10 -- operations never change their operands."""
from __future__ import annotations
import ast
import random
from ..model import load_model
from ..evalengine import pmap
from ..histengine import all_actions, run_history, sample_histories
from ..effects import analyse, VALUE_CLASSES

ACCUMULATOR_OWN = {"NumericPartialsAccumulator": {"_numeric_partials"},
                   "SyntheticPartialsAccumulator": {"_synthetic_partials"}}


def check_effects(rep, model):
    effects, sf, memos = analyse(model)
    all_struct = set().union(*sf.values())
    n = 0
    for ef in effects:
        fi = ef["func"]
        q = fi.qualname
        n += 1
        if ef["kind"] == "attr-store":
            fld = ef["field"]
            if fld in all_struct and fld not in memos:
                owner_ok = fi.name == "__init__" and ef["on_self"] and fi.cls is not None
                if owner_ok:
                    rep.ok("C10.field-writes", f"{q}: {ef['target']} =", ef["where"], "structural field set in its own "
                           "constructor", nontrivial=False)
                else:
                    rep.violation("C10.field-writes", f"{q}: {ef['target']} =", ef["where"],
                                  f"the structural field {fld!r} (part of what the object denotes) is assigned outside "
                                  f"the constructor of its class", witness_class=f"store {fld}")
            continue
        if ef["kind"] == "reflection":
            rep.violation("C10.field-writes", f"{q}: {ef['target']}", ef["where"],
                          "setattr/delattr: attribute writes the analysis cannot attribute to a field",
                          witness_class="reflection")
            continue
        if ef["kind"] == "aug-name":
            v = ef["value"]
            numeric = isinstance(v, (ast.Constant, ast.Name, ast.BinOp, ast.Call, ast.Attribute, ast.UnaryOp)) and not \
                isinstance(v, (ast.List, ast.ListComp)) and not ef.get("setop")
            if ef["owned"] or numeric and ef["root"] not in [a.arg for a in fi.node.args.args]:
                rep.ok("C10.no-borrowed-mutation", f"{q}: {ef['target']} op=", ef["where"], "rebinding / owned local",
                       nontrivial=False)
                continue
            if numeric:
                rep.ok("C10.no-borrowed-mutation", f"{q}: {ef['target']} op=", ef["where"],
                       "augmented assignment of a parameter rebinds the local name", nontrivial=False)
                continue
        # item-store / delete / mutating-call / aug-name on containers
        root = ef.get("root", "")
        owned = ef.get("owned", False)
        construct = f"{q}: {ef['target']}"
        if owned:
            rep.ok("C10.no-borrowed-mutation", construct, ef["where"], f"container {root!r} is created in this function")
            continue
        # the accumulators' own scratch dictionaries
        if fi.cls is not None and fi.cls.name in ACCUMULATOR_OWN:
            parts = root.split(".")
            if len(parts) == 2 and parts[1] in ACCUMULATOR_OWN[fi.cls.name]:
                rep.ok("C10.no-borrowed-mutation", construct, ef["where"],
                       "the accumulator's own per-traversal dictionary (never part of an expression, point or "
                       "derivative object)")
                continue
        rep.violation("C10.no-borrowed-mutation", construct, ef["where"],
                      f"in-place mutation ({ef['kind']}{' .' + ef['method'] if ef.get('method') else ''}) of "
                      f"{root!r}, which this function did not create (a parameter, a field, or an element of "
                      f"someone else's container)", witness_class=f"{ef['kind']} {root.split('.')[-1]}")
    rep.extra["write_effects_examined"] = n
    # containers stored into structural fields must be fresh copies (no aliasing of caller-owned containers)
    for cname in sorted(sf):
        ci = model.classes[cname]
        init = ci.methods.get("__init__")
        if init is None:
            continue
        va = init.node.args.vararg.arg if init.node.args.vararg else None
        kw = init.node.args.kwarg.arg if init.node.args.kwarg else None
        for node in ast.walk(init.node):
            if isinstance(node, ast.Assign) and len(node.targets) == 1 and isinstance(node.targets[0], ast.Attribute):
                v = node.value
                fld = node.targets[0].attr
                if isinstance(v, ast.Name) and v.id == va:
                    # *args is a fresh tuple: immutable, fine
                    rep.ok("C10.no-aliasing-leak", f"{cname}.__init__: self.{fld}", f"{ci.module.rel}:{node.lineno}",
                           "stores the *args tuple (immutable)", nontrivial=False)
                elif isinstance(v, ast.Name) and v.id == kw:
                    rep.ok("C10.no-aliasing-leak", f"{cname}.__init__: self.{fld}", f"{ci.module.rel}:{node.lineno}",
                           "stores its own **kwargs dict (fresh per call)")
                elif isinstance(v, ast.Call) and isinstance(v.func, ast.Name) and v.func.id in ("list", "dict", "tuple", "set"):
                    rep.ok("C10.no-aliasing-leak", f"{cname}.__init__: self.{fld}", f"{ci.module.rel}:{node.lineno}",
                           f"stores a copy ({v.func.id}(...))")


def check_behaviour(rep, actions):
    """'evaluates like a freshly built copy': a query on a pooled expression or a kept derivative object
    after an operation that may have rewired it (as_expression on the very object, simplification of its
    expression) against the same query on a fresh pool."""
    from .c09 import same_answer
    queries = [a for a in actions if a[2] is not None and a[0] in ("at", "partial", "partial-early", "differential-early")]
    runs = []
    for a in queries:
        ops = [("normalize", a[1], None, None), ("as_expression-reverse", a[1], None, "y")]
        if a[0] == "partial":
            ops.append(("as_expression", a[1], None, a[3]))
        else:
            ops.append(("as_expression", a[1], None, "x"))
        for op in ops:
            runs.append(([op], a))
    fresh = dict(zip(queries, pmap(run_history, [([], a) for a in queries], chunksize=8)))
    results = pmap(run_history, runs, chunksize=8)
    per = {}
    for (h, a), r in zip(runs, results):
        d = per.setdefault(a[0], [0, 0])
        d[0] += 1
        b = fresh[a]
        if r["status"] != "ok" or b["status"] != "ok":
            rep.unknown("C10.behaviour", a[0], "", (r.get("reason") or b.get("reason") or "")[:200])
            continue
        if same_answer(r["result"], b["result"]):
            d[1] += 1
            continue
        q = f"{a[0]}({a[1]}, {a[2]}{', ' + a[3] if a[3] else ''})"
        rep.violation("C10.behaviour", f"{a[0]} after {h[0][0]}", "",
                      f"after {h[0][0]}({h[0][1]}{', ' + h[0][3] if h[0][3] else ''}) the existing object answers {q} with "
                      f"{r['result']} but a freshly built copy answers {b['result']}",
                      witness={"history": h, "final": a, "got": r["result"], "fresh": b["result"]},
                      witness_class=f"{r['result'][0]} vs {b['result'][0]}")
    for k, (n, good) in sorted(per.items()):
        if n == good:
            rep.ok("C10.behaviour", f"query {k}", "", f"{n} (operation, query) pairs on pooled expressions and kept "
                   f"derivative objects, incl. the absent variable and points outside the domain: same answer as a "
                   f"freshly built copy (numbers up to rounding)", cases=n)


def check(rep):
    model = load_model()
    actions = all_actions()
    rng = random.Random(rep.seed * 104729 + 5)
    runs = []
    # every single action, then sampled longer histories
    for f in actions:
        runs.append(([], f))
    n2, n3 = (400, 150) if rep.tier == "quick" else (4000, 1500)
    for h in sample_histories(actions, rng, 0, n2, n3):
        runs.append((h[:-1], h[-1]))
    results = pmap(run_history, runs, chunksize=8)
    per = {}
    for (h, f), r in zip(runs, results):
        d = per.setdefault(f[0], [0, 0])
        d[0] += 1
        if r["status"] != "ok":
            rep.unknown("C10.snapshot", f[0], "", r.get("reason", "")[:200])
            continue
        rep.count("operations_interpreted", len(h) + 1)
        if r["changed"]:
            k, before, after = r["changed"][0]
            ops = " ; ".join(f"{a[0]}({a[1]}{', ' + a[2] if a[2] else ''})" for a in list(h) + [f])
            rep.violation("C10.snapshot", f"{k.split('.')[0].split(' ')[0]} changed by {f[0]}", "",
                          f"after [{ops}] the pooled object {k} no longer denotes what it did: {before[:160]} became "
                          f"{str(after)[:160]}", witness={"history": h, "final": f, "changed": r["changed"][:3]},
                          witness_class=f"changed {k.split('[')[0].split('.')[-1]}")
        else:
            d[1] += 1
    for k, (n, good) in sorted(per.items()):
        if n == good:
            rep.ok("C10.snapshot", f"operation {k}", "", f"{n} histories: every pooled expression, point, derivative "
                   f"object and every expression returned earlier reads back unchanged (structure, variable set, "
                   f"coordinates and their order)", cases=n)
    check_behaviour(rep, actions)
    check_effects(rep, model)
    rep.extra["histories"] = len(runs)
    rep.sample({"history": runs[-1][0], "final": runs[-1][1]})
    rep.require_floor("C10.snapshot", 8, "kinds of operation")
    rep.require_floor("C10.behaviour", 4, "kinds of query")
    rep.require_floor("C10.field-writes", 20, "structural field stores")
    rep.require_floor("C10.no-borrowed-mutation", 8, "in-place mutation sites")
    rep.assume("sound for the Python subset the package uses (setattr/delattr are flagged; no exec/__dict__ tricks)",
               "memo fields (_value, _is_fully_reduced, _evaluation_failed, Partial._synthetic_partial) may be written "
               "anywhere; C12/C13 show they are invisible to ==, hash and repr")
    return rep.finish(
        explanation="(1) Write-effect analysis of every function: a structural field (child, parameter, variable set, "
                    "coordinates, derivative objects' identity fields -- derived from the constructors) may be assigned "
                    "only in the constructor of its own class; every in-place mutation (item store, del, augmented "
                    "assignment, mutating container method) must target a container created in the same function, the "
                    "only exception being the accumulators' own scratch dictionaries. (2) Histories of operations are "
                    "interpreted abstractly over a pool with shared sub-expressions; after each, every pooled object and "
                    "every previously returned expression is read back field by field and must be unchanged.",
        technique="static write-effect/ownership analysis + abstract interpretation of histories with structural snapshots",
        exhaustive=False)
