"""C08 -- simplification preserves meaning and never shrinks the domain."""
from __future__ import annotations
from ..model import load_model
from ..evalengine import pmap
from ..simpengine import (rule_inputs, variable_free_inputs, reduce_trace, compare_trees, SIGN_REGIONS,
                          FINE_REGIONS, random_trees, deep_pattern_sites, unary_chains)
from .. import spec


def parity(n):
    return "even" if int(n) % 2 == 0 else "odd"


def pattern_class(tree) -> str:
    """Coarse description of a rule input used in finding keys: class names with the parity of
    integer parameters and the value of constant children (two levels)."""
    def one(t, depth):
        k = t[0]
        if k == "Variable":
            return "_"
        if k == "Constant":
            return f"Constant({t[1]!r})"
        if k == "ConstantSym":
            return "Constant(.)"
        if k in ("NthPower", "NthRoot"):
            inner = one(t[1], depth + 1) if depth < 1 else "_"
            return f"{k}[{'1' if int(t[2]) == 1 else parity(t[2])}]({inner})"
        if k in ("Exponential", "Logarithm"):
            inner = one(t[1], depth + 1) if depth < 1 else "_"
            return f"{k}({inner})"
        kids = spec.children(t)
        if depth >= 1:
            return k
        return f"{k}({','.join(one(c, depth + 1) for c in kids)})"
    return one(tree, 0)


def redex(a, b, ia, ib, who: str):
    """The pair of sub-trees (before, after) the step rewrote, with their identity skeletons: walk
    down while exactly one child differs, and take the deepest node on that path whose class is the
    class of the reducer that fired (for the constant fold: the deepest node replaced by a
    Constant).  Evaluation is strict and eager in every child (C02.eager), so every context is
    monotone for 'defined, with the same value': soundness of the step is soundness of this pair."""
    owner = who.split(".")[0]
    is_fold = who.endswith("_consolidate_expression_lacking_variables")
    if who in ("normal-form pass", "driver", "input"):
        return a, b, ia, ib
    best = (a, b, ia, ib)
    while True:
        if is_fold:
            if b[0] in ("Constant", "ConstantSym") and a[0] not in ("Constant", "ConstantSym"):
                best = (a, b, ia, ib)
        elif a[0] == owner:
            best = (a, b, ia, ib)
        if a[0] != b[0] or a[0] in spec.LEAF or a[0] == "ConstantSym":
            break
        ka, kb = spec.children(a), spec.children(b)
        if len(ka) != len(kb) or (a[0] not in spec.NARY and a[1 + len(ka):] != b[1 + len(kb):]):
            break
        diff = [i for i, (x, y) in enumerate(zip(ka, kb)) if x != y]
        if len(diff) != 1 or len(ia[1]) != len(ka) or len(ib[1]) != len(kb):
            break
        a, b, ia, ib = ka[diff[0]], kb[diff[0]], ia[1][diff[0]], ib[1][diff[0]]
    return best


def generalise(a, b, ia, ib):
    """Replace every compound grandchild *object* of the rewritten sub-tree by a fresh variable, in
    both sides, matching by object identity: reducers inspect the classes of direct children only
    (C08.pattern-depth) and copy grandchildren by reference, so the pair with variables is the rule
    instance the step is an instance of -- with plain variables whose sign regions can be enumerated."""
    table = {}

    def collect(t, ids, depth):
        for c, ci in zip(spec.children(t), ids[1]):
            if depth + 1 >= 2:
                if c[0] not in spec.LEAF and c[0] != "ConstantSym" and spec.variables(c) and ci[0]:
                    table.setdefault(ci[0], ("Variable", f"g{len(table)}"))
            else:
                collect(c, ci, depth + 1)
    if len(ia[1]) != len(spec.children(a)):
        return a, b
    collect(a, ia, 0)
    if not table:
        return a, b

    def subst(t, ids):
        if ids[0] in table:
            return table[ids[0]]
        if t[0] in spec.LEAF or t[0] == "ConstantSym":
            return t
        kids = spec.children(t)
        kid_ids = ids[1] if len(ids[1]) == len(kids) else [(0, [])] * len(kids)
        if t[0] in spec.NARY:
            return (t[0], [subst(c, ci) for c, ci in zip(kids, kid_ids)])
        n = len(kids)
        return (t[0],) + tuple(subst(c, ci) for c, ci in zip(kids, kid_ids)) + tuple(t[1 + n:])
    return subst(a, ia), subst(b, ib)


def simp_case(args):
    tree, label, tier = args
    tr = reduce_trace((tree, 150))
    out = {"tree": spec.show(tree), "label": label, "kind": tr["kind"], "steps": [], "pattern": pattern_class(tree)}
    if tr["kind"] != "ok":
        out.update({k: v for k, v in tr.items() if k != "kind"})
        return out
    seq = tr["seq"]
    regions = SIGN_REGIONS if (tier == "quick" or len(spec.variables(tree)) > 3) else FINE_REGIONS
    out["n_steps"] = len(seq) - 1
    out["warnings"] = tr["warnings"]
    for e0, e1 in zip(seq, seq[1:]):
        (who0, a, ra, ia), (who, b, rb, ib) = e0[:4], e1[:4]
        if len(e1) > 4 and e1[4] is not None:
            ia = e1[4]       # identities of the form right before this step (flag-only steps rebuild parents)
        if b is None:
            out["steps"].append({"who": who, "problems": [{"kind": "no-termination-within-analysis-budget"}],
                                 "from": ra, "to": None, "n": 0, "pattern": pattern_class(a)})
            break
        sa, sb, sia, sib = redex(a, b, ia, ib, who)
        ga, gb = generalise(sa, sb, sia, sib) if who.split(".")[-1].startswith("_reduce") else (sa, sb)
        if set(spec.variables(gb)) - set(spec.variables(ga)) and not (set(spec.variables(sb)) - set(spec.variables(sa))):
            # the reducer took a generalised grandchild apart (a pattern deeper than direct children): the
            # generalisation is not an instance of the rule, judge the step as it is
            ga, gb = sa, sb
        nv = len(spec.variables(ga))
        problems, n = compare_trees(ga, gb, FINE_REGIONS if (tier != "quick" and nv <= 2) else SIGN_REGIONS)
        if (ga, gb) != (a, b):
            for p in problems:
                p["at"] = f"{p.get('at', '')} for the rule instance {spec.show(ga)} -> {spec.show(gb)}"
        out["steps"].append({"who": who, "from": ra, "to": rb, "problems": problems, "n": n,
                             "pattern": pattern_class(sa)})
    # end to end, and the public pipeline must give the same result as the step-wise drive
    if seq[-1][1] is not None:
        problems, n = compare_trees(seq[0][1], seq[-1][1], regions)
        out["end"] = {"problems": problems, "n": n, "to": seq[-1][2]}
        if tr["end"] is not None and tr["end"][0] != seq[-1][1]:
            out["pipeline_mismatch"] = spec.show(tr["end"][0]) if tr["end"][0] else None
    return out


def partially_reduced_inputs(model, inputs):
    """Forms the normal-form pass may receive when the rewriter gives up: NOT fully reduced -- any rule
    input with an n-ary root, plus sums/products that still carry several constants."""
    out = [(t, l) for (t, l) in inputs if t[0] not in spec.LEAF and not l.startswith("random(")
           and not l.startswith("fold")]
    v, w = ("Variable", "v"), ("Variable", "w")
    for k in spec.NARY:
        if k not in model.classes:
            continue
        for kids in ([("Constant", -2), ("Constant", 5), v], [v, ("Constant", 3), ("Constant", -1)],
                     [("Constant", -2), v, ("Constant", -3)], [("Constant", 2), ("Constant", -3)],
                     [("Negation", v), ("Constant", -2), ("Constant", 4), w],
                     [("Reciprocal", v), ("Constant", -2), ("Constant", 0.5), w],
                     [("Constant", 0), ("Constant", -1), v], [v, v, ("Constant", -1), ("Constant", -1)]):
            out.append(((k, kids), f"{k}<several constants>"))
    return out


def normal_form_case(args):
    """Worker: the normal-form pass applied directly to a form that is not fully reduced."""
    (tree,) = args
    from ..harness import build, run_paths, exc_name
    from ..derivengine import obj_to_tree
    model = load_model()

    def thunk(it):
        e = build(it, tree, {})
        if model.resolve_method(e.cls, "_normalize_fully_reduced") is None:
            return None
        return obj_to_tree(it, it.call(it.getattr(e, "_normalize_fully_reduced"), [], {}))
    outs = run_paths(model, thunk, max_paths=2, max_steps=4000000, generic_only=True)
    o = outs[0]
    if o["kind"] == "raise":
        from ..harness import exc_origin
        return {"kind": "raise", "exc": exc_name(o["exc"]), "origin": exc_origin(o["exc"])}
    if o["kind"] != "return":
        return {"kind": "unsupported", "msg": o["msg"]}
    if o["value"] is None:
        return {"kind": "absent"}
    problems, n = compare_trees(tree, o["value"], SIGN_REGIONS)
    return {"kind": "ok", "to": spec.show(o["value"]), "problems": problems, "n": n}


def check_normal_form_pass(rep, model, inputs):
    cases = partially_reduced_inputs(model, inputs)
    results = pmap(normal_form_case, [(t,) for (t, _l) in cases], chunksize=8)
    per = {}
    for (tree, label), r in zip(cases, results):
        construct = f"{tree[0]}._normalize_fully_reduced"
        d = per.setdefault(construct, [0, 0])
        d[0] += 1
        if r["kind"] == "absent":
            rep.unknown("C08.normal-form-pass", construct, "", "anchor missing: no _normalize_fully_reduced method")
        elif r["kind"] == "unsupported":
            rep.unknown("C08.normal-form-pass", construct, "", f"{spec.show(tree)}: {r['msg']}")
        elif r["kind"] == "raise":
            if r["exc"] != "OverflowError":
                rep.violation("C08.normal-form-pass", construct, "",
                              f"the normal-form pass applied to the partially reduced {spec.show(tree)} raised {r['exc']}",
                              witness_class=f"raised {r['exc']}")
        else:
            bad = [p for p in r["problems"] if p["kind"] in ("domain-shrinks", "value-differs", "new-variable")]
            unk = [p for p in r["problems"] if p["kind"] == "unknown"]
            if bad:
                p = bad[0]
                fi = model.resolve_method(model.cls(tree[0]), "_normalize_fully_reduced")
                rep.violation("C08.normal-form-pass", construct, fi.where if fi else "",
                              f"the normal-form pass turns the partially reduced {spec.show(tree)} (as handed over when "
                              f"the rewriter gives up) into {r['to']}: {p['kind']} at {{{p.get('at', '')}}} {p['detail']}",
                              witness=r, witness_class=f"{p['kind']} {label}")
            elif unk:
                rep.unknown("C08.normal-form-pass", construct, "", f"{spec.show(tree)} -> {r['to']}: {unk[0]['detail']}")
            else:
                d[1] += 1
    for construct, (n, good) in sorted(per.items()):
        if n == good:
            rep.ok("C08.normal-form-pass", construct, "", f"{n} not fully reduced forms (every rule input of this class; sums and "
                   f"products still carrying several constants): the pass alone preserves domain and value", cases=n)


def check(rep):
    model = load_model()
    tier = rep.tier
    inputs = rule_inputs(model, tier) + variable_free_inputs(model) + unary_chains(model, tier)
    if tier != "quick":
        inputs += random_trees(rep.seed, 400, 40)
    results = pmap(simp_case, [(t, l, tier) for (t, l) in inputs], chunksize=8)
    fired = {}
    per_label = {}
    for (tree, label), out in zip(inputs, results):
        d = per_label.setdefault(label, [0, 0])
        d[0] += 1
        bad = False
        if out["kind"] == "unsupported":
            rep.unknown("C08.rule", label, "", f"interpreter: {out['msg']} on {out['tree']}")
            continue
        if out["kind"] == "raise" and out["exc"] == "OverflowError":
            rep.count("inputs_skipped_overflow")      # excluded by the property (exact intermediates leave the double range)
            continue
        if out["kind"] == "raise":
            rep.violation("C08.driver", label, out.get("origin", ""),
                          f"normalising {out['tree']} raised {out['exc']}", witness=out,
                          witness_class=f"raised {out['exc']}")
            continue
        for st in out["steps"]:
            who = st["who"]
            fired[who] = fired.get(who, 0) + 1
            rep.count("rewrite_steps_checked")
            rep.count("region_comparisons", st["n"])
            for p in st["problems"]:
                bad = True
                if p["kind"] == "unknown":
                    if label.startswith("random("):
                        # exploration beyond the systematic families: a comparison the normaliser cannot
                        # close on a big random tree is counted, not reported
                        rep.count("random_tree_comparisons_not_judged")
                        continue
                    rep.unknown("C08.rule", who, "", f"{st['from']} -> {st['to']} at {{{p['at']}}}: {p['detail']}")
                    continue
                if p["kind"] == "no-termination-within-analysis-budget":
                    rep.unknown("C08.driver", label, "", f"{out['tree']}: more than 150 driver steps")
                    continue
                fi = model.functions.get(who)
                where = fi.where if fi else ""
                msg = (f"{who}: {st['from']}  ->  {st['to']}  "
                       + {"domain-shrinks": f"is undefined ({p['detail']}) where the input is defined, at {{{p.get('at')}}}",
                          "value-differs": f"has a different value at {{{p.get('at')}}}: {p['detail']}",
                          "new-variable": f"mentions new variable(s) {p['detail']}"}[p["kind"]])
                rep.violation("C08.rule", who, where, msg, witness={"step": st, "input": out["tree"]},
                              witness_class=f"{p['kind']} {st['pattern']}")
        end = out.get("end")
        if end:
            for p in end["problems"]:
                if p["kind"] in ("domain-shrinks", "value-differs", "new-variable") and not bad:
                    rep.violation("C08.end-to-end", label, "",
                                  f"{out['tree']} normalises to {end['to']}: {p['kind']} at {{{p.get('at')}}} {p['detail']}",
                                  witness=out, witness_class=f"{p['kind']} {out['pattern']}")
                    bad = True
        if "pipeline_mismatch" in out:
            rep.violation("C08.pipeline", label, "",
                          f"{out['tree']}: _normalize() returned {out['pipeline_mismatch']} but driving "
                          f"_take_reduction_step until the flag is set and applying the normal-form pass gives "
                          f"{end['to'] if end else '?'}", witness_class="pipeline-differs")
            bad = True
        if out.get("warnings"):
            rep.count("inputs_hitting_the_warning_fallback")
        if not bad:
            d[1] += 1
    for label, (n, good) in sorted(per_label.items()):
        if n == good:
            rep.ok("C08.rule", label, "", f"{n} rule inputs: every step and the end result are defined wherever "
                   f"the input is, with the same value (all sign regions)", cases=n)
    check_normal_form_pass(rep, model, inputs)
    # every reducer listed by a class must have fired on some input (otherwise its soundness was not examined)
    listed = []
    for ci in model.concrete_expression_classes():
        for fname, fi in sorted(ci.methods.items()):
            if fname.startswith("_reduce") and not fi.is_property:
                listed.append(fi.qualname)
    for q in listed:
        if fired.get(q, 0) == 0:
            rep.unknown("C08.coverage", q, model.functions[q].where,
                        "no enumerated input made this reducer fire: its soundness was not examined")
        else:
            rep.ok("C08.coverage", q, model.functions[q].where, f"fired on {fired[q]} enumerated inputs", nontrivial=False)
    for fi, ln, path in deep_pattern_sites(model):
        rep.unknown("C08.pattern-depth", fi.qualname, f"{fi.module.rel}:{ln}",
                    f"the reducer inspects the class of {path}, deeper than the enumerated rule inputs "
                    f"(children of children are plain variables there): not covered")
    rep.ok("C08.pattern-depth", "all reducers", "", "every reducer inspects classes of direct children only, so a "
           "variable in a grandchild position stands for an arbitrary sub-expression", nontrivial=False) \
        if not deep_pattern_sites(model) else None
    rep.extra["reducers_fired"] = dict(sorted(fired.items()))
    rep.extra["inputs"] = len(inputs)
    for i in (5, len(inputs) // 2, len(inputs) - 3):
        o = results[i]
        rep.sample({"input": o["tree"], "steps": [(s["who"], s["to"]) for s in o.get("steps", [])][:6]})
    rep.require_floor("C08.coverage", 40, "reducers")
    rep.require_floor("C08.rule", 60, "input families")
    rep.assume("'up to rounding of folded constants': folded constants are compared as exact symbolic terms",
               "rule inputs: every class with children drawn from the classes its reducers inspect plus a plain "
               "variable standing for an arbitrary sub-expression; n-ary arity <= 3; depth 2")
    return rep.finish(
        explanation="The rewriting driver is interpreted abstractly, one _take_reduction_step at a time exactly as "
                    "_fully_reduce drives it, on every enumerated rule input (each class x the child classes its "
                    "reducers inspect x parameter combinations x arities/positions), plus variable-free sub-trees "
                    "(defined and undefined) for constant folding, plus the normal-form pass and the public "
                    "_normalize pipeline. Every intermediate expression is read back; each step, attributed to the "
                    "reducer that fired, must be defined on every sign region where its input is and have the same "
                    "canonical value.",
        technique="static abstract interpretation of the rewriter + canonical-form algebra per rewrite step",
        exhaustive=True)
