"""C13 -- the printed form echoes the object."""
from __future__ import annotations
from ..model import load_model
from ..harness import build, cref, run_paths, exc_name
from ..evalengine import pmap
from ..objengine import (expression_pool, POINTS, tree_equal, make_point_concrete, parse_printed,
                         printed_to_tree, PrintedFormError)
from .. import spec


def point_from_printed(p):
    if p[0] != "call" or p[1] != "Point" or p[2]:
        raise PrintedFormError("expected Point(name=value, ...)")
    out = {}
    for k, v in p[3].items():
        if v[0] != "num":
            raise PrintedFormError("coordinate value is not a number")
        out[k] = v[1]
    return out


def rebuild(it, p):
    """Evaluate a parsed printed form with the public names in scope (inside the interpreter)."""
    from ..values import SymNum
    if p[0] == "num":
        return SymNum.of(p[1]) if isinstance(p[1], float) else p[1]
    if p[0] == "str":
        return p[1]
    if p[0] == "call":
        if p[1] not in it.model.classes:
            raise PrintedFormError(f"{p[1]} is not a public constructor")
        return it.call(cref(it.model, p[1]), [rebuild(it, a) for a in p[2]], {k: rebuild(it, v) for k, v in p[3].items()})
    raise PrintedFormError(f"cannot evaluate {p!r}")


def library_round_trip(it, o, text):
    """eval(repr(o)) == o with the library's own equality, both ways; None when the text is not a
    constructor call (reported by the echo rule)."""
    from ..interp import InterpRaise
    try:
        back = rebuild(it, parse_printed(text))
    except PrintedFormError:
        return None
    except InterpRaise as r:
        return f"evaluating the printed text raised {exc_name(r.exc)}"
    try:
        e1 = it.truth(it.compare("==", back, o))
        e2 = it.truth(it.compare("==", o, back))
    except InterpRaise as r:
        return f"comparing raised {exc_name(r.exc)}"
    return "equal" if (e1 and e2) else f"unequal (rebuilt == original: {e1}, original == rebuilt: {e2})"


def print_case(args):
    kind, payload = args
    model = load_model()

    def thunk(it):
        if kind == "expr":
            o = build(it, payload, {})
        elif kind == "point":
            o = make_point_concrete(it, payload)
        else:
            cls, tree, extra = payload
            e = build(it, tree, {})
            if cls == "Partial":
                o = it.call(cref(model, "Partial"), [e, extra], {})
            elif cls == "LocatedDifferential":
                o = it.call(cref(model, cls), [e, make_point_concrete(it, extra)], {})
            elif cls == "Partial(early)":
                o = it.call(cref(model, "Partial"), [e, extra], {"compute_early": True})
            elif cls == "Partial(Variable object)":
                o = it.call(cref(model, "Partial"), [e, build(it, ("Variable", extra), {})], {})
            elif cls == "Differential(early)":
                o = it.call(cref(model, "Differential"), [e], {"compute_early": True})
            elif cls == "LocatedDifferential(early)":      # as handed out by an early Differential
                d = it.call(cref(model, "Differential"), [e], {"compute_early": True})
                o = it.call(it.getattr(d, "at"), [make_point_concrete(it, extra)], {})
            else:
                o = it.call(cref(model, cls), [e], {})
        text = it.to_repr(o)
        return text, it.to_str(o), library_round_trip(it, o, text) if isinstance(text, str) else None
    outs = run_paths(model, thunk, max_paths=2, max_steps=3000000, generic_only=True)
    o = outs[0]
    if o["kind"] == "raise":
        return {"status": "raised", "exc": exc_name(o["exc"])}
    if o["kind"] != "return":
        return {"status": "unsupported", "reason": o["msg"]}
    r, s, lib = o["value"]
    res = {"repr": r, "str": s, "library_eq": lib}
    if r != s:
        res["status"] = "str-differs-from-repr"
        return res
    try:
        p = parse_printed(r)
        if kind == "expr":
            t = printed_to_tree(p)
            res["status"] = "ok" if tree_equal(t, payload) else "rebuilds-a-different-object"
            if res["status"] != "ok":
                res["rebuilt"] = spec.show(t)
        elif kind == "point":
            d = point_from_printed(p)
            res["status"] = "ok" if d == payload else "rebuilds-a-different-object"
        else:
            cls, tree, extra = payload
            base = cls.split("(")[0]
            if p[0] != "call" or p[1] != base:
                raise PrintedFormError(f"expected a {base}(...) call")
            pos = p[2]
            if p[3]:
                raise PrintedFormError("unexpected keywords")
            if not pos or not tree_equal(printed_to_tree(pos[0]), tree):
                res["status"] = "rebuilds-a-different-object"
            elif base == "Partial":
                ok = len(pos) == 2 and ((pos[1][0] == "call" and printed_to_tree(pos[1]) == ("Variable", extra))
                                        or (pos[1][0] == "str" and pos[1][1] == extra))
                res["status"] = "ok" if ok else "rebuilds-a-different-object"
            elif base == "LocatedDifferential":
                ok = len(pos) == 2 and point_from_printed(pos[1]) == extra
                res["status"] = "ok" if ok else "rebuilds-a-different-object"
            else:
                res["status"] = "ok" if len(pos) == 1 else "rebuilds-a-different-object"
    except PrintedFormError as e:
        res["status"] = "not-a-constructor-call"
        res["reason"] = str(e)
    return res


def sequence_case(args):
    """Worker: print every pool expression one after another in ONE interpreter (one process):
    the text of each must be what it prints alone."""
    (pool,) = args
    from ..interp_ops import Interpreter
    from ..interp import InterpRaise, Unsupported
    model = load_model()
    it = Interpreter(model, max_steps=30000000)
    it.generic_only = True
    it.reset_run([])
    out = []
    try:
        objs = [build(it, t, {}) for t in pool]
        for o in objs:
            out.append(it.to_repr(o))
        for o in reversed(objs):
            it.to_str(o)
        again = [it.to_repr(o) for o in objs]
    except InterpRaise as r:
        return {"status": "raised", "exc": exc_name(r.exc)}
    except Unsupported as u:
        return {"status": "unsupported", "reason": str(u)}
    return {"status": "ok", "first": out, "again": again}


def check(rep):
    model = load_model()
    pool = expression_pool(model, rep.tier)
    x = ("Variable", "x")
    sample_tree = ("Minus", ("NthPower", x, 2), ("Multiply", [x, ("Variable", "y")]))
    if rep.tier != "quick":
        from ..simpengine import random_trees
        pool = pool + [t for (t, _l) in random_trees(rep.seed, 300, 30, names=("x", "y", "long_name_2"))]
    # every literal of the pool as a *direct child* of every kind of parent (a parent may print its
    # children through str(), repr(), an f-string -- which is format(child, "") -- or a join) and
    # inside a derivative object; the route the text takes must not matter
    names = {c.name for c in model.concrete_expression_classes()}
    literals = [t for t in pool if t[0] == "Constant"] + [("Constant", 0.123456789), ("Constant", 1234567),
                                                          ("Constant", -7654321.5), ("Constant", 1 / 3)]
    y = ("Variable", "y")
    embedded = []
    for c in literals:
        for k in ("Negation", "Sine"):
            if k in names:
                embedded.append((k, c))
        for k in ("NthPower", "Logarithm"):
            if k in names:
                embedded.append((k, c, 3))
        for k in ("Minus", "Power"):
            if k in names:
                embedded += [(k, c, y), (k, y, c)]
        for k in ("Add", "Multiply"):
            if k in names:
                embedded += [(k, [c]), (k, [y, c, x])]
    pool = pool + embedded
    cases = [("expr", t) for t in pool] + [("point", p) for p in POINTS]
    for c in literals[::3]:
        for tree in (("Negation", c), ("Minus", x, c), ("Add", [x, c]), c):
            cases += [("deriv", ("Differential", tree, None)), ("deriv", ("Partial", tree, "x")),
                      ("deriv", ("LocatedDifferential", tree, {"x": 2}))]
    for tree in (x, sample_tree, ("NthRoot", x, 3), ("Logarithm", x, 2)):
        cases += [("deriv", ("Derivative", tree, None)) if len(spec.variables(tree)) == 1 else None,
                  ("deriv", ("Differential", tree, None)), ("deriv", ("Differential(early)", tree, None)),
                  ("deriv", ("Partial", tree, "x")), ("deriv", ("Partial(early)", tree, "x")),
                  ("deriv", ("Partial", tree, "long_name_2")), ("deriv", ("Partial(Variable object)", tree, "x")),
                  ("deriv", ("Partial(Variable object)", tree, "long_name_2")),
                  ("deriv", ("LocatedDifferential", tree, {"x": 2, "y": 4.5})),
                  ("deriv", ("LocatedDifferential(early)", tree, {"x": 2, "y": 4.5})),
                  ("deriv", ("LocatedDifferential", tree, {"x": 0.1 + 0.2, "y": 1 / 3})),
                  ("deriv", ("LocatedDifferential", tree, {"x": 2.5e-17, "y": 123456789.125}))]
    # objects that carry derived numbers (the components of an early differential at a point) next to
    # what they print: inexact roots/logarithms at points where two numeric routes round differently
    for tree, pt in ((("NthRoot", x, 3), {"x": 3}), (("NthRoot", x, 3), {"x": 2.5}), (("Logarithm", x, 10), {"x": 0.7}),
                     (("Divide", ("Sine", x), ("NthRoot", x, 5)), {"x": 0.3}), (("Power", x, x), {"x": 1.7}),
                     (("Exponential", ("Reciprocal", x), 3), {"x": 7.0}),
                     (("Multiply", [("Logarithm", x, 3), ("Cosine", ("Variable", "y"))]), {"x": 0.1, "y": 2.3})):
        cases += [("deriv", ("LocatedDifferential(early)", tree, pt)), ("deriv", ("LocatedDifferential", tree, pt))]
    cases = [c for c in cases if c is not None]
    results = pmap(print_case, cases, chunksize=4)
    seen_text = {}
    for (kind, payload), r in zip(cases, results):
        if kind == "expr":
            what = payload[0]
            desc = spec.show(payload)
        elif kind == "point":
            what, desc = "Point", f"Point({payload})"
        else:
            what, desc = payload[0], f"{payload[0]} of {spec.show(payload[1])}"
        construct = f"{what}.__repr__"
        st = r["status"]
        rep.count("objects_printed")
        if st == "unsupported":
            rep.unknown("C13.echo", construct, "", r["reason"])
        elif st == "ok" and r.get("library_eq") not in (None, "equal"):
            ci = model.classes.get(what.split("(")[0])
            rep.violation("C13.round-trip", f"{what.split('(')[0]}.__eq__ after eval(repr(.))", ci.where if ci else "",
                          f"{desc} prints as {r['repr']}, but the object obtained by evaluating that text is not == to "
                          f"the original under the library's own equality: {r['library_eq']}", witness=r,
                          witness_class=f"round-trip {what}")
        elif st == "ok":
            rep.ok("C13.echo", f"{construct}: {desc}", "", f"prints as {r['repr']} which parses back to the same object"
                   + (" and, evaluated, is == to the original" if r.get("library_eq") == "equal" else ""))
            if kind == "expr":
                prev = seen_text.get(r["repr"])
                if prev is not None and not tree_equal(prev, payload):
                    rep.violation("C13.injective", construct, "",
                                  f"unequal expressions {spec.show(prev)} and {desc} both print as {r['repr']}",
                                  witness_class="collision")
                seen_text[r["repr"]] = payload
        else:
            ci = model.classes.get(what.split("(")[0])
            where = ci.where if ci else ""
            msg = (f"{desc} prints as {r.get('repr')!r}" + (f" (str: {r.get('str')!r})" if st == "str-differs-from-repr" else "")
                   + f": {st}" + (f" ({r.get('reason') or r.get('rebuilt') or r.get('exc')})"
                                  if (r.get('reason') or r.get('rebuilt') or r.get('exc')) else ""))
            rep.violation("C13.echo", construct, where, msg, witness=r, witness_class=st)
    # one process printing the whole pool: no text may depend on what was printed before
    seq = sequence_case(([c[1] for c in cases if c[0] == "expr"],))
    alone = [r.get("repr") for (c, r) in zip(cases, results) if c[0] == "expr"]
    if seq["status"] == "unsupported":
        rep.unknown("C13.sequence", "printing the pool in one process", "", seq["reason"])
    elif seq["status"] == "raised":
        rep.violation("C13.sequence", "printing the pool in one process", "", f"raised {seq['exc']}", witness_class="raised")
    else:
        bad = [(a, f, g) for a, f, g in zip(alone, seq["first"], seq["again"]) if a is not None and (a != f or a != g)]
        if bad:
            a, f, g = bad[0]
            rep.violation("C13.sequence", "printing the pool in one process", "",
                          f"an expression that prints as {a} on its own prints as {f if f != a else g} after other "
                          f"expressions were printed in the same process ({len(bad)} such objects)",
                          witness_class="text depends on what was printed before")
        else:
            rep.ok("C13.sequence", "printing the pool in one process", "",
                   f"{len(alone)} expressions printed one after another (and again in reverse order): every text is "
                   f"what the expression prints alone", cases=len(alone))
    for i in (3, 20, len(cases) - 1):
        rep.sample({"object": str(cases[i][1])[:120], "printed": results[i].get("repr")})
    from ..structure import check_field_agreement
    check_field_agreement(rep, model, "C13.fields", ["__repr__", "__str__"], "the printed form", must_cover=True)
    rep.require_floor("C13.echo", 60, "objects")
    rep.assume("the float -> text -> float round trip of parameters is Python's float.__repr__ (exact); "
               "finite numeric content only")
    return rep.finish(
        explanation="repr() and str() of a pool of expressions over all 15 constructors and parameter kinds, of "
                    "points and of all derivative objects are computed by abstract interpretation of the source; "
                    "the text is parsed as a Python expression and read as a constructor call with the public "
                    "signatures; it must denote exactly the original object (structural comparison done by the "
                    "checker, not by the library's __eq__). Round-tripping implies that unequal expressions never "
                    "print identically; collisions are also checked directly.",
        technique="static abstract interpretation of __repr__/__str__ + parse-back of the printed constructor call",
        exhaustive=False)
