"""C17 -- only the library's own errors escape, and results are real numbers."""
from __future__ import annotations
import ast
from ..model import load_model
from ..harness import partition, valuations
from ..callgraph import CallGraph
from .. import spec
from ..evalengine import (depth1_instances, depth2_instances, constant_child_instances, inspected_child_instances,
                          wide_nary_instances, eval_case, pmap, param_class, region_class)
from ..derivcommon import derivative_cases
from ..derivengine import deriv_group, ROUTES, EXPR_ROUTES

LIBRARY_ERRORS = {"DomainError", "CoordinateMissing"}
ENTRY_POINTS = ["Expression.at", "Partial.at", "Partial.as_expression", "Derivative.at", "Derivative.as_expression",
                "Differential.at", "Differential.component", "Differential.component_at",
                "LocatedDifferential.__init__", "LocatedDifferential.component", "Partial.__init__",
                "Derivative.__init__", "Differential.__init__"]


def missing_coordinate_case(args):
    """evaluation / differentiation with a coordinate missing: only library errors may escape"""
    from ..harness import build, make_point, run_paths, exc_name, exc_origin, cref
    from ..derivengine import run_route
    from ..values import SymNum, ComplexVal
    tree, val, drop, route = args
    model = load_model()
    val2 = {k: v for k, v in val.items() if k != drop}

    def thunk(it):
        e = build(it, tree, {})
        pt = make_point(it, val2)
        if route == "at":
            return it.call(it.getattr(e, "at"), [pt], {})
        vobj = it.call(cref(model, "Variable"), [drop], {})
        return run_route(it, route, e, vobj, drop, pt, None)
    out = []
    for o in run_paths(model, thunk, max_paths=6, generic_only=True):
        if o["kind"] == "raise":
            out.append({"outcome": "raise", "exc": exc_name(o["exc"]), "origin": exc_origin(o["exc"]),
                        "imprecise": o["imprecise"]})
        elif o["kind"] == "return":
            v = o["value"]
            real = isinstance(v, (int, SymNum)) and not isinstance(v, bool)
            out.append({"outcome": "return", "real": real, "value": repr(v), "imprecise": o["imprecise"]})
        else:
            out.append({"outcome": "unsupported", "reason": o["msg"]})
    return out


def raise_class(model, fi, node: ast.Raise):
    if node.exc is None:
        return "<re-raise>"
    e = node.exc.func if isinstance(node.exc, ast.Call) else node.exc
    r = model.resolve(fi.module, e)
    if r and r[0] == "class":
        return r[1].name
    return ast.unparse(e)


def check_raises(rep, model):
    cg = CallGraph(model)
    roots = [q for q in ENTRY_POINTS if q in model.functions]
    if len(roots) < 10:
        rep.unknown("C17.raises", "<entry points>", "", f"only {len(roots)} of the public entry points were found")
    reach = cg.reachable(roots)
    concrete = model.concrete_expression_classes()
    n = 0
    for q in sorted(reach):
        fi = model.functions.get(q)
        if fi is None:
            continue
        for node in ast.walk(fi.node):
            if not isinstance(node, ast.Raise):
                continue
            n += 1
            cls = raise_class(model, fi, node)
            where = f"{fi.module.rel}:{node.lineno}"
            construct = f"{q}: raise {cls}"
            if cls in LIBRARY_ERRORS:
                rep.ok("C17.raises", construct, where, "library error", nontrivial=False)
            elif fi.is_abstract:
                # abstract stub: fine iff every concrete class overrides it
                missing = [c.name for c in concrete if model.is_subclass(c, fi.cls.name)
                           and model.resolve_method(c, fi.name) is fi]
                if missing:
                    rep.violation("C17.raises", construct, where,
                                  f"abstract stub {q} is not overridden by {', '.join(missing)}: its generic Exception "
                                  f"is reachable from the public API", witness_class="abstract-not-overridden")
                else:
                    rep.ok("C17.raises", construct, where, "abstract stub overridden by every concrete class",
                           nontrivial=False)
            elif fi.name == "__init__":
                rep.ok("C17.raises", construct, where, "constructor argument validation (C16)", nontrivial=False)
            elif fi.qualname == "expression.get_the_single_variable_name":
                rep.ok("C17.raises", construct, where, "documented 'more than one variable' exception (C14)",
                       nontrivial=False)
            elif fi.name == "__pow__":
                rep.ok("C17.raises", construct, where, "operator argument validation (C15)", nontrivial=False)
            elif cls == "<re-raise>":
                rep.ok("C17.raises", construct, where, "re-raise", nontrivial=False)
            else:
                path = cg.path(roots, q)
                rep.violation("C17.raises", construct, where,
                              f"a non-library exception ({cls}) is raised in code reachable from the public API "
                              f"via {' -> '.join(path[-4:])}", witness_class=f"raise {cls}")
    rep.extra["functions_reachable_from_api"] = len(reach)
    rep.extra["raise_statements_examined"] = n
    rep.extra["calls_unresolved"] = sum(len(v) for v in cg.unresolved.values())


def check(rep):
    model = load_model()
    tier = rep.tier
    # (1) evaluation on every class and parent/undefined-child combination, all regions
    atoms = partition(model, tier)
    coarse = partition(model, "quick")
    inst1, _ = depth1_instances(model, tier)
    inst2 = depth2_instances(model, "quick")
    cases = []
    for tree, label in inst1 + inst2 + constant_child_instances(model, tier):
        names = spec.variables(tree)
        use = atoms if len(names) <= 1 else coarse
        for val in valuations(names, use):
            cases.append((tree, label, val))
    from ..simpengine import SIGN_REGIONS
    for tree, label in inspected_child_instances(model, tier) + wide_nary_instances(model, tier):
        names = spec.variables(tree)
        for val in valuations(names, coarse if len(names) <= 1 else SIGN_REGIONS):
            cases.append((tree, label, val))
    results = pmap(eval_case, [(t, v, "at") for (t, l, v) in cases])
    per = {}
    for (tree, label, val), res in zip(cases, results):
        d = per.setdefault(("Expression.at", label), [0, 0])
        d[0] += 1
        good = True
        for r in res:
            if r["status"] in ("skip",):
                continue
            rep.count("paths_interpreted")
            bad = None
            if r["status"] == "unsupported":
                rep.unknown("C17.eval", label, "", r["reason"])
                good = False
                continue
            if r.get("got") == "raise" and r["exc"] not in LIBRARY_ERRORS:
                bad = f"raised {r['exc']} at {r.get('origin')}"
            elif r["status"] in ("complex", "not-a-number"):
                bad = f"returned {r.get('got')}"
            if bad:
                good = False
                msg = f"{r['tree']}.at(...) with {{{r['val']}}} {bad}"
                if r["imprecise"]:
                    rep.unknown("C17.eval", f"{tree[0]}.at", r.get("origin", ""), "only on an undecided path: " + msg)
                else:
                    rep.violation("C17.eval", f"{tree[0]}.at" if "<" not in label else label, r.get("origin", ""), msg,
                                  witness=r, witness_class=f"{r.get('exc') or r['status']} {param_class(tree)}")
        if good:
            d[1] += 1
    # (2) every derivative route and as_expression
    dcases, _ = derivative_cases(model, "quick", True, list(ROUTES))
    groups = {}
    for idx, (t, l, v, var, rts) in enumerate(dcases):
        groups.setdefault((id(t), var, tuple(rts)), (t, var, rts, l, []))[4].append(idx)
    tasks = []
    for (t, var, rts, l, idxs) in groups.values():
        for k in range(0, len(idxs), 40):
            part = idxs[k:k + 40]
            tasks.append(((t, var, [dcases[i][2] for i in part], rts, list(EXPR_ROUTES) if k == 0 else [], False,
                           "quick"), part, l))
    gres = pmap(deriv_group, [a for (a, _p, _l) in tasks], chunksize=1)
    for (a, part, label), outs in zip(tasks, gres):
        for out in outs:
            if "skip" in out:
                continue
            for route, rs in list(out["routes"].items()) + list(out["exprs"].items()):
                d = per.setdefault((route, label), [0, 0])
                d[0] += 1
                good = True
                for r in rs:
                    rep.count("paths_interpreted")
                    exc = r.get("exc")
                    bad = None
                    if r["status"] == "unsupported":
                        rep.unknown("C17.routes", f"{label} via {route}", "", r["reason"])
                        good = False
                        continue
                    if exc and exc not in LIBRARY_ERRORS:
                        bad = f"raised {exc} at {r.get('origin')}"
                    elif r["status"] == "not-a-real":
                        bad = f"returned {r.get('got')}"
                    if bad:
                        good = False
                        msg = f"{out['tree']} d/d{out['var']} at {{{out['val']}}} via {route} {bad}"
                        if r["imprecise"]:
                            rep.unknown("C17.routes", f"{label} via {route}", r.get("origin", ""), msg)
                        else:
                            rep.violation("C17.routes", f"{label} via {route}", r.get("origin", ""), msg,
                                          witness_class=f"{exc or 'not-a-real'}")
                if good:
                    d[1] += 1
    # (3) missing coordinates
    mtasks = []
    for tree, label in inst1 + inst2[::7]:
        names = spec.variables(tree)
        if not names:
            continue
        val = {n: coarse[-1] for n in names}
        for drop in names[:2]:
            for route in ("at", "Partial.at", "Partial(early).at", "LocatedDifferential.component",
                          "Differential(early).at.component"):
                mtasks.append(((tree, val, drop, route), label))
    mres = pmap(missing_coordinate_case, [a for (a, _l) in mtasks], chunksize=8)
    for ((tree, val, drop, route), label), res in zip(mtasks, mres):
        d = per.setdefault((f"{route} (missing coordinate)", label), [0, 0])
        d[0] += 1
        good = True
        for r in res:
            rep.count("paths_interpreted")
            if r["outcome"] == "unsupported":
                rep.unknown("C17.missing", label, "", r["reason"])
                good = False
            elif r["outcome"] == "raise" and r["exc"] not in LIBRARY_ERRORS:
                good = False
                rep.violation("C17.missing", f"{label} via {route}", r.get("origin", ""),
                              f"{spec.show(tree)} via {route} at a point lacking {drop!r} raised {r['exc']} at {r.get('origin')}",
                              witness_class=f"{r['exc']}")
            elif r["outcome"] == "return" and not r["real"]:
                good = False
                rep.violation("C17.missing", f"{label} via {route}", "",
                              f"{spec.show(tree)} via {route} at a point lacking {drop!r} returned {r['value']}",
                              witness_class="not-a-real")
        if good:
            d[1] += 1
    # (4) the normal-form pass on forms that are NOT fully reduced (what the give-up exit of the rewriter hands
    #     to it when a big symbolic derivative exhausts the step budget): no foreign exception may escape
    from .c08 import partially_reduced_inputs, normal_form_case
    from ..simpengine import rule_inputs
    pr = partially_reduced_inputs(model, rule_inputs(model, "quick"))
    pres = pmap(normal_form_case, [(t,) for (t, _l) in pr], chunksize=8)
    for (tree, label), r in zip(pr, pres):
        d = per.setdefault(("normal-form pass on a partially reduced form", label), [0, 0])
        d[0] += 1
        if r["kind"] == "unsupported":
            rep.unknown("C17.give-up-path", label, "", r["msg"])
        elif r["kind"] == "raise" and r["exc"] not in LIBRARY_ERRORS and r["exc"] != "OverflowError":
            rep.violation("C17.give-up-path", f"{tree[0]}._normalize_fully_reduced", r.get("origin", ""),
                          f"the normal-form pass applied to the partially reduced {spec.show(tree)} (as as_expression() does "
                          f"when the rewriter gives up on a large derivative) raises {r['exc']}",
                          witness_class=f"{r['exc']} {tree[0]}")
        else:
            d[1] += 1
    byroute = {}
    for (route, label), (n, good) in per.items():
        a = byroute.setdefault(route, [0, 0, 0])
        a[0] += n
        a[1] += good
        a[2] += 1
    for route, (n, good, labels) in sorted(byroute.items()):
        if n == good:
            rep.ok("C17.outcomes", route, "", f"{n} cases over {labels} instance families: value is a real number or the "
                   f"exception is DomainError/CoordinateMissing", cases=n)
    check_raises(rep, model)
    rep.require_floor("C17.outcomes", 15, "routes")
    rep.require_floor("C17.raises", 40, "reachable raise statements")
    rep.sample({"entry points": ENTRY_POINTS})
    rep.assume("OverflowError / inf / nan from exact intermediates outside the double range are excluded by the property")
    return rep.finish(
        explanation="(1) Abstract interpretation of evaluation, of all 14 numeric derivative routes and of the 6 "
                    "as_expression routes on every class, parent/undefined-child combination, region (inside, outside "
                    "and on the boundary of the domain) and with coordinates missing: every partial Python operation "
                    "(/, **, math.log, math.sqrt, dict lookup, unpacking, calls on Optional values) is modelled with its "
                    "own failure mode, so an escaping ValueError, ZeroDivisionError, TypeError, KeyError, AttributeError "
                    "or a complex result is observed as such. (2) Call-graph rule: every raise statement reachable from "
                    "the public entry points raises a library error, or is constructor/operator argument validation, the "
                    "documented arity exception, or an abstract stub overridden by every concrete class.",
        technique="static abstract interpretation with modelled failure modes + call-graph reachability of raise statements",
        exhaustive=False)
