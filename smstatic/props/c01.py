"""C01 -- evaluation returns the real-arithmetic value of the expression.

Decided: for every concrete class (children = variables, every arity 0..3/4, n up to 8/30,
bases below/at/above 1 and e), for composite and shared (DAG) instances and for the
bare-number entry point, the term computed by abstractly interpreting Expression.at from
source is, on every sign region of the variables, the same real function as the
specification reading of the tree (canonical forms in ALGEBRA).  Exactness clause (C01.exact):
for the arithmetic constructors every floating-point operation on the evaluation path must
produce an exact intermediate of the tree (no inexact reciprocal, logarithm ... in between).
Not decided: the size of floating-point rounding.
"""
from __future__ import annotations
import math
from ..model import load_model
from ..harness import partition, valuations
from .. import spec
from ..evalengine import (depth1_instances, constant_child_instances, inspected_child_instances, wide_nary_instances,
                          eval_case, pmap, param_class, region_class)

E = math.e


def composite_instances():
    x, y, z = ("Variable", "x"), ("Variable", "y"), ("Variable", "z")
    s = ("Multiply", [x, y])                 # shared sub-expression object
    t = ("Minus", x, y)
    return [
        (("Minus", ("Divide", x, y), ("Minus", y, x)), "composite:Minus/Divide"),
        (("Divide", ("Minus", x, y), ("Add", [x, ("Constant", 3)])), "composite:Divide/Minus"),
        (("Add", [s, s, ("NthPower", s, 2)]), "dag:shared-product"),
        (("Multiply", [t, ("Negation", t), ("Constant", 2)]), "dag:shared-difference"),
        (("Power", ("Exponential", x, 2), ("Reciprocal", y)), "composite:Power"),
        (("NthRoot", ("NthPower", x, 3), 3), "composite:root-of-power"),
        (("Logarithm", ("Exponential", x, E), 2), "composite:log-exp"),
        (("Sine", ("Add", [x, ("Cosine", y)])), "composite:trig"),
        (("Add", [("Multiply", [x, y, z]), ("Negation", z), ("Constant", 0.5)]), "composite:poly3"),
        # a compound sibling next to one that fails at zero / negatives (an evaluation that fails part-way)
        (("Add", [("Sine", x), ("Logarithm", x, E)]), "composite:sum-with-partial-sibling"),
        (("Multiply", [("Cosine", x), ("Reciprocal", x), ("NthPower", x, 2)]), "composite:product-with-partial-sibling"),
        (("Minus", ("Exponential", x, 2), ("NthRoot", x, 2)), "composite:difference-with-partial-sibling"),
        # sums / products that still carry several literal constants, below a non-linear parent
        (("NthPower", ("Add", [x, ("Constant", 2), ("Constant", 3)]), 2), "composite:several-constants-in-sum"),
        (("Sine", ("Multiply", [("Constant", 2), x, ("Constant", 3), y])), "composite:several-constants-in-product"),
        (("Multiply", [("Add", [("Add", [x, ("Constant", 2)]), ("Constant", 3)]), ("Exponential", y, 2)]), "composite:nested-constants"),
    ]


# ---------------------------------------------------------------- exactness clause
EXACT_CLASSES = ("Add", "Multiply", "Minus", "Divide", "Negation", "Reciprocal", "NthPower")


def exact_instances():
    vs = [("Variable", n) for n in ("x", "y", "z", "w")]
    out = []
    for k in range(0, 5):
        out.append((("Add", vs[:k]), f"Add/{k}"))
        out.append((("Multiply", vs[:k]), f"Multiply/{k}"))
    out += [(("Minus", vs[0], vs[1]), "Minus"), (("Divide", vs[0], vs[1]), "Divide"),
            (("Negation", vs[0]), "Negation"), (("Reciprocal", vs[0]), "Reciprocal")]
    out += [(("NthPower", vs[0], n), f"NthPower/n={n}") for n in (1, 2, 3, 4, 5)]
    return out


def exact_intermediates(tree):
    """The exact intermediates of a depth-1 tree read as real arithmetic (terms): any rounding
    the implementation performs must produce one of these (or a leaf)."""
    import itertools
    k = tree[0]
    leaves = [("h", c[1]) for c in spec.children(tree)]
    out = list(leaves) + [("c", 0), ("c", 1)]
    if k in ("Add", "Multiply"):
        head = "add" if k == "Add" else "mul"
        for r in range(2, len(leaves) + 1):
            for sub in itertools.combinations(leaves, r):
                out.append((head,) + sub)
    elif k == "Minus":
        out.append(("add", leaves[0], ("neg", leaves[1])))
    elif k == "Divide":
        out.append(("div", leaves[0], leaves[1]))
    elif k == "Reciprocal":
        out.append(("div", ("c", 1), leaves[0]))
    elif k == "NthPower":
        out += [("powi", leaves[0], j) for j in range(2, int(tree[2]) + 1)]
    return out


def rounding_subterms(term, acc):
    """Every sub-term that is the result of a floating-point operation (negation is exact and is
    looked through)."""
    if not isinstance(term, tuple) or term[0] in ("h", "c"):
        return acc
    if term[0] != "neg":
        acc.append(term)
    for a in term[1:]:
        rounding_subterms(a, acc)
    return acc


def exact_case(args):
    """Worker: the value term of a depth-1 instance on each sign region (generic path) and the list
    of its rounded sub-terms that are not exact intermediates of the tree."""
    from ..harness import build, make_point, run_paths
    from ..regions import IV
    from ..values import SymNum
    from ..algebra import compare_terms
    tree, region = args
    model = load_model()
    names = spec.variables(tree)
    iv = IV(1.0, math.inf, False, True) if region == ">1" else IV(-math.inf, -1.0, True, False)
    val = {n: iv for n in names}

    def thunk(it):
        e = build(it, tree, {})
        return it.call(it.getattr(e, "at"), [make_point(it, val)], {})
    res = []
    allowed = exact_intermediates(tree)
    signs = spec.signs_from_valuation(val)
    for o in run_paths(model, thunk, max_paths=8):
        if o["kind"] != "return" or o["imprecise"] or not isinstance(o["value"], (int, SymNum)):
            res.append({"status": "not-judged", "kind": o["kind"]})
            continue
        term = SymNum.of(o["value"]).term
        extra = []
        for sub in rounding_subterms(term, []):
            verdicts = []
            for a in allowed:
                for cand in (a, ("neg", a)):
                    verdicts.append(compare_terms(sub, cand, signs)[0])
                if "equal" in verdicts[-2:]:
                    break
            if "equal" in verdicts:
                continue
            extra.append({"term": repr(sub), "definite": all(v == "differ" for v in verdicts)})
        res.append({"status": "ok" if not extra else "extra-rounding", "term": repr(term), "extra": extra})
    return res


def check_exact(rep, model):
    insts = [(t, l) for (t, l) in exact_instances() if t[0] in model.classes]
    cases = [(t, r) for (t, l) in insts for r in (">1", "<-1")]
    results = pmap(exact_case, cases)
    for (tree, label), pair in zip(insts, zip(results[0::2], results[1::2])):
        construct = f"{tree[0]}.at"
        bad = None
        judged = 0
        for res in pair:
            for r in res:
                if r["status"] == "not-judged":
                    rep.count("exactness_paths_not_judged")
                    continue
                judged += 1
                if r["status"] == "extra-rounding" and bad is None:
                    bad = r
        if bad is not None:
            definite = [e for e in bad["extra"] if e["definite"]]
            if definite:
                rep.violation("C01.exact", construct, model.cls(tree[0]).where,
                              f"{spec.show(tree)} is computed as {bad['term']}: the rounded intermediate "
                              f"{definite[0]['term']} is not an exact intermediate of the tree, so a result whose exact "
                              f"intermediates are all small integers or dyadic rationals is no longer guaranteed to be "
                              f"returned exactly (e.g. an inexact reciprocal or logarithm in between)",
                              witness=bad, witness_class=f"extra rounding in {label}")
            else:
                rep.unknown("C01.exact", construct, "", f"{label}: cannot relate intermediate {bad['extra'][0]['term']} "
                                                         f"to the tree's exact intermediates")
        elif judged:
            rep.ok("C01.exact", label, model.cls(tree[0]).where,
                   "every floating-point operation on the evaluation path produces an exact intermediate of the tree "
                   "(a partial sum/product, the difference, the quotient, a lower power) or is an exact negation: with "
                   "representable exact intermediates every IEEE operation is exact", cases=judged)


def judge(rep, tree, label, val, results, api):
    k = tree[0]
    for r in results:
        st = r["status"]
        if st == "skip":
            rep.count("cases_skipped_sign_undetermined")
            continue
        rep.count("paths_interpreted")
        construct = f"{k}.at" if ":" not in label else label
        if api.startswith("number"):
            construct += "(number)"
        if api == "number-after-reuse":
            construct += " after its nodes became operands of other expressions"
        if api == "at-after-other":
            construct += " after evaluations at other points"
        if api == "at-after-symbolic":
            construct += " after symbolic differentiation / simplification of the same object"
        if st == "unsupported":
            rep.unknown("C01.value", construct, "", f"interpreter: {r['reason']} on {r['tree']}")
        elif st == "value-differs":
            msg = (f"{r['tree']} at {{{r['val']}}}: computed {r['got']} but the real-arithmetic value "
                   f"differs, e.g. at {r['witness']['at']}: code {r['witness']['values'][0]:.6g} vs "
                   f"specification {r['witness']['values'][1]:.6g}")
            if r["imprecise"]:
                rep.count("paths_not_judged_undecided_branch")
            else:
                rep.violation("C01.value", construct, "", msg, witness=r,
                              witness_class=f"{param_class(tree)} [{region_class(val)}]")
        elif st == "value-unknown" and r["imprecise"]:
            rep.count("paths_not_judged_undecided_branch")
        elif st == "value-unknown":
            rep.unknown("C01.value", construct, "", f"{r['tree']} at {{{r['val']}}}: {r['reason']}")
        elif st == "spurious-raise" and not api.startswith("number") and not r["imprecise"]:
            # a point of the domain: the property promises the real value there, not an exception
            rep.violation("C01.value", construct, r.get("origin", ""),
                          f"{r['tree']} at {{{r['val']}}}: the tree has a real value here but evaluation raised "
                          f"{r.get('exc')}", witness=r, witness_class=f"raises on the domain {param_class(tree)} [{region_class(val)}]")
        elif st in ("spurious-raise", "wrong-exception", "not-a-number", "complex") and api.startswith("number"):
            rep.violation("C01.entry", construct, r.get("origin", ""),
                          f"{r['tree']}.at(<number>) with {{{r['val']}}}: expected {r.get('expected')}, got "
                          f"{r.get('exc') or r.get('got')}", witness=r, witness_class=st)
        # other outcome mismatches are C02's business


def check(rep):
    model = load_model()
    tier = rep.tier
    atoms = partition(model, tier)
    coarse = partition(model, "quick")
    inst1, unknown_classes = depth1_instances(model, tier)
    cases = []
    for tree, label in inst1 + composite_instances() + constant_child_instances(model, tier):
        names = spec.variables(tree)
        use = atoms if len(names) <= 2 else coarse
        for val in valuations(names, use):
            cases.append((tree, label, val, "at"))
    from ..simpengine import SIGN_REGIONS
    for tree, label in inspected_child_instances(model, tier):
        names = spec.variables(tree)
        for val in valuations(names, coarse if len(names) <= 2 else SIGN_REGIONS):
            cases.append((tree, label, val, "at"))
    for tree, label in wide_nary_instances(model, tier):
        for val in valuations(spec.variables(tree), SIGN_REGIONS):
            cases.append((tree, label, val, "at"))
    # the same expression object evaluated earlier at other points (one of them failing where possible)
    for tree, label in inst1 + composite_instances():
        names = spec.variables(tree)
        if names:
            for val in valuations(names, coarse):
                cases.append((tree, label, val, "at-after-other"))
    # the same expression evaluated after it was differentiated symbolically / simplified
    for tree, label in inst1 + composite_instances() + constant_child_instances(model, tier):
        names = spec.variables(tree)
        if names:
            for val in valuations(names, coarse if len(names) <= 2 else SIGN_REGIONS):
                cases.append((tree, label, val, "at-after-symbolic"))
    # bare-number entry point: every one-variable and zero-variable depth-1 instance
    for tree, label in inst1:
        names = spec.variables(tree)
        if len(names) == 1:
            for val in valuations(names, atoms):
                cases.append((tree, label, val, "number"))
    # ... and the same after the expression's nodes were used as operands of other expressions
    for tree, label in inst1:
        names = spec.variables(tree)
        if len(names) == 1:
            for val in valuations(names, coarse):
                cases.append((tree, label, val, "number-after-reuse"))
    results = pmap(eval_case, [(t, v, api) for (t, l, v, api) in cases])
    per = {}
    for (tree, label, val, api), res in zip(cases, results):
        before = len(rep.violations) + len(rep.inconclusive)
        judge(rep, tree, label, val, res, api)
        ok = (len(rep.violations) + len(rep.inconclusive)) == before
        key = (label, "C01.entry" if api.startswith("number") else "C01.value")
        d = per.setdefault(key, [0, 0])
        d[0] += 1
        d[1] += 1 if ok else 0
    for (label, rule), (n, good) in sorted(per.items()):
        if n == good:
            cname = label.split(":")[0]
            where = model.cls(cname).where if cname in model.classes else ""
            rep.ok(rule, label, where, f"{n} region/parameter cases: interpreted value term == "
                   f"specification term (canonical forms)", cases=n)
    for i in (1, len(cases) // 2, len(cases) - 1):
        t, l, v, api = cases[i]
        rep.sample({"instance": spec.show(t), "regions": region_class(v), "entry": api,
                    "result": [r.get("got") or r.get("exc") or r.get("status") for r in results[i]]})
    check_exact(rep, model)
    rep.require_floor("C01.exact", 15, "arithmetic instances")
    for k in unknown_classes:
        rep.assume(f"class {k} has no row in the specification table and is not judged")
    rep.require_floor("C01.value", 15, "class/composite instances")
    rep.require_floor("C01.entry", 8, "one-variable classes through the bare-number entry")
    rep.assume("the size of floating-point rounding is not decided (a fact about float arithmetic, not about the shape "
               "of this code); the exactness clause is decided for the arithmetic constructors through its structural "
               "part: no floating-point operation other than the tree's own (C01.exact), given IEEE-754 "
               "correctly rounded + - * / and exact small integer powers",
               "the specification table (spec.value_term) is the mathematical reading stated in the property")
    return rep.finish(
        explanation="Abstract interpretation of Expression.at from source yields, per sign region, a "
                    "closed-form term; it must have the same canonical form as the specification reading "
                    "of the tree. Covers every class, arity, parameter class, shared sub-expressions and "
                    "the bare-number entry.",
        technique="static abstract interpretation + canonical-form algebra",
        exhaustive=True)
