"""C01 -- evaluation returns the real-arithmetic value of the expression.

Decided: for every concrete class (children = variables, every arity 0..3/4, n up to 8/30,
bases below/at/above 1 and e), for composite and shared (DAG) instances and for the
bare-number entry point, the term computed by abstractly interpreting Expression.at from
source is, on every sign region of the variables, the same real function as the
specification reading of the tree (canonical forms in ALGEBRA).  Not decided: the size of
floating-point rounding and the exactness clause for small integers/dyadics.
"""
from __future__ import annotations
import math
from ..model import load_model
from ..harness import partition, valuations
from .. import spec
from ..evalengine import (depth1_instances, constant_child_instances, inspected_child_instances, wide_nary_instances,
                          eval_case, pmap, param_class, region_class)

E = math.e


def composite_instances():
    x, y, z = ("Variable", "x"), ("Variable", "y"), ("Variable", "z")
    s = ("Multiply", [x, y])                 # shared sub-expression object
    t = ("Minus", x, y)
    return [
        (("Minus", ("Divide", x, y), ("Minus", y, x)), "composite:Minus/Divide"),
        (("Divide", ("Minus", x, y), ("Add", [x, ("Constant", 3)])), "composite:Divide/Minus"),
        (("Add", [s, s, ("NthPower", s, 2)]), "dag:shared-product"),
        (("Multiply", [t, ("Negation", t), ("Constant", 2)]), "dag:shared-difference"),
        (("Power", ("Exponential", x, 2), ("Reciprocal", y)), "composite:Power"),
        (("NthRoot", ("NthPower", x, 3), 3), "composite:root-of-power"),
        (("Logarithm", ("Exponential", x, E), 2), "composite:log-exp"),
        (("Sine", ("Add", [x, ("Cosine", y)])), "composite:trig"),
        (("Add", [("Multiply", [x, y, z]), ("Negation", z), ("Constant", 0.5)]), "composite:poly3"),
        # a compound sibling next to one that fails at zero / negatives (an evaluation that fails part-way)
        (("Add", [("Sine", x), ("Logarithm", x, E)]), "composite:sum-with-partial-sibling"),
        (("Multiply", [("Cosine", x), ("Reciprocal", x), ("NthPower", x, 2)]), "composite:product-with-partial-sibling"),
        (("Minus", ("Exponential", x, 2), ("NthRoot", x, 2)), "composite:difference-with-partial-sibling"),
    ]


def judge(rep, tree, label, val, results, api):
    k = tree[0]
    for r in results:
        st = r["status"]
        if st == "skip":
            rep.count("cases_skipped_sign_undetermined")
            continue
        rep.count("paths_interpreted")
        construct = f"{k}.at" if ":" not in label else label
        if api == "number":
            construct += "(number)"
        if api == "at-after-other":
            construct += " after evaluations at other points"
        if st == "unsupported":
            rep.unknown("C01.value", construct, "", f"interpreter: {r['reason']} on {r['tree']}")
        elif st == "value-differs":
            msg = (f"{r['tree']} at {{{r['val']}}}: computed {r['got']} but the real-arithmetic value "
                   f"differs, e.g. at {r['witness']['at']}: code {r['witness']['values'][0]:.6g} vs "
                   f"specification {r['witness']['values'][1]:.6g}")
            if r["imprecise"]:
                rep.count("paths_not_judged_undecided_branch")
            else:
                rep.violation("C01.value", construct, "", msg, witness=r,
                              witness_class=f"{param_class(tree)} [{region_class(val)}]")
        elif st == "value-unknown" and r["imprecise"]:
            rep.count("paths_not_judged_undecided_branch")
        elif st == "value-unknown":
            rep.unknown("C01.value", construct, "", f"{r['tree']} at {{{r['val']}}}: {r['reason']}")
        elif st in ("spurious-raise", "wrong-exception", "not-a-number", "complex") and api == "number":
            rep.violation("C01.entry", construct, r.get("origin", ""),
                          f"{r['tree']}.at(<number>) with {{{r['val']}}}: expected {r.get('expected')}, got "
                          f"{r.get('exc') or r.get('got')}", witness=r, witness_class=st)
        # other outcome mismatches are C02's business


def check(rep):
    model = load_model()
    tier = rep.tier
    atoms = partition(model, tier)
    coarse = partition(model, "quick")
    inst1, unknown_classes = depth1_instances(model, tier)
    cases = []
    for tree, label in inst1 + composite_instances() + constant_child_instances(model, tier):
        names = spec.variables(tree)
        use = atoms if len(names) <= 2 else coarse
        for val in valuations(names, use):
            cases.append((tree, label, val, "at"))
    from ..simpengine import SIGN_REGIONS
    for tree, label in inspected_child_instances(model, tier):
        names = spec.variables(tree)
        for val in valuations(names, coarse if len(names) <= 2 else SIGN_REGIONS):
            cases.append((tree, label, val, "at"))
    for tree, label in wide_nary_instances(model, tier):
        for val in valuations(spec.variables(tree), SIGN_REGIONS):
            cases.append((tree, label, val, "at"))
    # the same expression object evaluated earlier at other points (one of them failing where possible)
    for tree, label in inst1 + composite_instances():
        names = spec.variables(tree)
        if names:
            for val in valuations(names, coarse):
                cases.append((tree, label, val, "at-after-other"))
    # bare-number entry point: every one-variable and zero-variable depth-1 instance
    for tree, label in inst1:
        names = spec.variables(tree)
        if len(names) == 1:
            for val in valuations(names, atoms):
                cases.append((tree, label, val, "number"))
    results = pmap(eval_case, [(t, v, api) for (t, l, v, api) in cases])
    per = {}
    for (tree, label, val, api), res in zip(cases, results):
        before = len(rep.violations) + len(rep.inconclusive)
        judge(rep, tree, label, val, res, api)
        ok = (len(rep.violations) + len(rep.inconclusive)) == before
        key = (label, "C01.entry" if api == "number" else "C01.value")
        d = per.setdefault(key, [0, 0])
        d[0] += 1
        d[1] += 1 if ok else 0
    for (label, rule), (n, good) in sorted(per.items()):
        if n == good:
            cname = label.split(":")[0]
            where = model.cls(cname).where if cname in model.classes else ""
            rep.ok(rule, label, where, f"{n} region/parameter cases: interpreted value term == "
                   f"specification term (canonical forms)", cases=n)
    for i in (1, len(cases) // 2, len(cases) - 1):
        t, l, v, api = cases[i]
        rep.sample({"instance": spec.show(t), "regions": region_class(v), "entry": api,
                    "result": [r.get("got") or r.get("exc") or r.get("status") for r in results[i]]})
    for k in unknown_classes:
        rep.assume(f"class {k} has no row in the specification table and is not judged")
    rep.require_floor("C01.value", 15, "class/composite instances")
    rep.require_floor("C01.entry", 8, "one-variable classes through the bare-number entry")
    rep.assume("floating-point rounding and the 'exact on small integers/dyadics' clause are not decided "
               "(they are facts about float arithmetic, not about the shape of this code)",
               "the specification table (spec.value_term) is the mathematical reading stated in the property")
    return rep.finish(
        explanation="Abstract interpretation of Expression.at from source yields, per sign region, a "
                    "closed-form term; it must have the same canonical form as the specification reading "
                    "of the tree. Covers every class, arity, parameter class, shared sub-expressions and "
                    "the bare-number entry.",
        technique="static abstract interpretation + canonical-form algebra",
        exhaustive=True)
