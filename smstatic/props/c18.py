"""C18 -- results are reproducible across processes, hash seeds and argument spelling."""
from __future__ import annotations
import itertools
from ..model import load_model
from ..evalengine import pmap
from ..harness import build, cref, exc_name
from ..interp import InterpRaise, Unsupported
from ..interp_ops import Interpreter
from ..objengine import make_point_concrete
from ..derivengine import obj_to_tree
from ..values import SymNum, Obj
from ..taint import Taint, identity_uses, nondeterministic_imports
from .. import spec

SET_ORDERS = ["sorted", "reversed", "rotated", "interleaved"]


def battery_trees():
    a, b, c, d = (("Variable", n) for n in ("a", "b", "c", "d"))
    return {
        "poly": ("Minus", ("Add", [("NthPower", a, 2), ("Multiply", [a, b]), ("Multiply", [c, d, ("Constant", 3)])]),
                 ("NthPower", b, 2)),
        "logs": ("Add", [("Logarithm", a, 2), ("Logarithm", b, 2), ("Logarithm", c, 2), ("Logarithm", d, 2)]),
        "exps": ("Multiply", [("Exponential", d, 2), ("Exponential", c, 2), ("Exponential", b, 2), ("Exponential", a, 2)]),
        "mixed": ("Divide", ("Multiply", [("Sine", d), ("NthRoot", b, 2), ("NthRoot", a, 2)]),
                  ("Add", [c, ("Negation", a), ("Reciprocal", b), ("Constant", 1.5)])),
        "roots": ("Multiply", [("NthRoot", c, 3), ("NthPower", a, 2), ("NthRoot", a, 3), ("NthPower", d, 2)]),
        # at the failing points below, different partials of this one fail in different ways
        "partial-failures": ("Add", [("Multiply", [("Logarithm", a, 2), a]), ("Multiply", [b, c]), ("NthRoot", d, 2)]),
        # names that differ only by case (ties for any case-insensitive ordering)
        "case-names": ("Add", [("Multiply", [a, ("Variable", "A")]), ("Multiply", [("Variable", "B"), b]), c, d]),
    }


# points outside the domain / with a coordinate missing: which exception escapes is part of the outcome
FAILING = {
    "a<0, c missing": {"a": -1.3, "b": 0.7, "d": 0.1},
    "d=0, b missing": {"a": 1.3, "c": 2.9, "d": 0.0},
    "a=0": {"a": 0.0, "b": 0.7, "c": 2.9, "d": 0.1},
}


COORDS = {"a": 1.3, "b": 0.7, "c": 2.9, "d": 0.1, "A": 0.9, "B": 1.1}


def exc_text(exc) -> str:
    """type and message of a raised exception (the message is part of the outcome)"""
    args = exc.attrs.get("args", ()) if isinstance(exc, Obj) else getattr(exc, "args", ())
    msg = args[0] if args and isinstance(args[0], str) else ""
    return f"raises {exc_name(exc)}: {msg}"


def battery_case(args):
    name, set_order, coord_order = args
    model = load_model()
    it = Interpreter(model, max_steps=30000000)
    it.generic_only = True
    it.set_order = set_order
    it.reset_run([])
    tree = battery_trees()[name]
    out = {}
    try:
        e = build(it, tree, {})
        pt = make_point_concrete(it, {k: COORDS[k] for k in tuple(coord_order) + ("A", "B")})

        def num(v):
            return repr(v.conc) if isinstance(v, SymNum) else repr(v)

        def expr(o):
            return repr(obj_to_tree(it, o))
        out["at"] = num(it.call(it.getattr(e, "at"), [pt], {}))
        ld = it.call(cref(model, "LocatedDifferential"), [e, pt], {})
        de = it.call(cref(model, "Differential"), [e], {"compute_early": True})
        lde = it.call(it.getattr(de, "at"), [pt], {})
        for v in "abcd":
            out[f"partial {v}"] = num(it.call(it.getattr(it.call(cref(model, "Partial"), [e, v], {}), "at"), [pt], {}))
            out[f"located {v}"] = num(it.call(it.getattr(ld, "component"), [v], {}))
            out[f"early located {v}"] = num(it.call(it.getattr(lde, "component"), [v], {}))
            out[f"early component_at {v}"] = num(it.call(it.getattr(de, "component_at"), [v, pt], {}))
            out[f"as_expression {v}"] = expr(it.call(it.getattr(it.call(cref(model, "Partial"), [e, v], {}), "as_expression"), [], {}))
            out[f"early as_expression {v}"] = expr(it.call(it.getattr(it.call(it.getattr(de, "component"), [v], {}), "as_expression"), [], {}))
        # the same objects, the same point with its coordinates written in the reverse order
        pt2 = make_point_concrete(it, {k: COORDS[k] for k in ("B", "A") + tuple(reversed(coord_order))})
        # entry points that reject an expression with several variables: type AND message are the outcome
        for key, fn in (("at(number)", lambda: it.call(it.getattr(e, "at"), [SymNum.of(2.0)], {})),
                        ("Derivative()", lambda: it.call(cref(model, "Derivative"), [e], {})),
                        ("Derivative(early)", lambda: it.call(cref(model, "Derivative"), [e], {"compute_early": True}))):
            try:
                fn()
                out[f"rejection {key}"] = "accepted"
            except InterpRaise as r:
                out[f"rejection {key}"] = exc_text(r.exc)
        out["at (reordered point, same objects)"] = num(it.call(it.getattr(e, "at"), [pt2], {}))
        out["located (reordered point, same objects)"] = num(it.call(it.getattr(
            it.call(cref(model, "LocatedDifferential"), [e, pt2], {}), "component"), ["b"], {}))
        # answers of comparisons are results too: the same expression located at the same point, the
        # coordinates written in another order (compared with the FIXED spelling a..d, A, B, so that a
        # comparison which depends on the written order changes with coord_order)
        ref = make_point_concrete(it, {k: COORDS[k] for k in tuple(sorted(coord_order)) + ("A", "B")})
        ld_ref = it.call(cref(model, "LocatedDifferential"), [e, ref], {})
        out["point == reference spelling"] = repr(it.truth(it.compare("==", pt, ref)))
        out["located == reference spelling"] = repr(it.truth(it.compare("==", ld, ld_ref)))
        out["located != reference spelling"] = repr(it.truth(it.compare("!=", ld, ld_ref)))
        out["early located == reference spelling"] = repr(it.truth(it.compare("==", lde, ld_ref)))
        out["located hash == reference spelling"] = repr(it.call_builtin("hash", [ld], {}) == it.call_builtin("hash", [ld_ref], {}))
        out["point hash == reference spelling"] = repr(it.call_builtin("hash", [pt], {}) == it.call_builtin("hash", [ref], {}))
        for label, coords in FAILING.items():
            order = [k for k in coord_order if k in coords]
            fp = make_point_concrete(it, {k: coords[k] for k in order})

            def attempt(key, fn):
                try:
                    out[f"{key} at failing point ({label})"] = num(fn())
                except InterpRaise as r:
                    out[f"{key} at failing point ({label})"] = "raises " + exc_name(r.exc)
            attempt("at", lambda: it.call(it.getattr(e, "at"), [fp], {}))
            attempt("located", lambda: it.call(it.getattr(it.call(cref(model, "LocatedDifferential"), [e, fp], {}),
                                                          "component"), ["b"], {}))
            attempt("early located", lambda: it.call(it.getattr(it.call(it.getattr(de, "at"), [fp], {}), "component"), ["b"], {}))
            attempt("differential.at", lambda: it.call(it.getattr(it.call(it.getattr(
                it.call(cref(model, "Differential"), [e], {}), "at"), [fp], {}), "component"), ["d"], {}))
            for v in "abcd":
                attempt(f"partial {v}", lambda: it.call(it.getattr(it.call(cref(model, "Partial"), [e, v], {}), "at"), [fp], {}))
                attempt(f"early component_at {v}", lambda: it.call(it.getattr(de, "component_at"), [v, fp], {}))
        out["normalize"] = expr(it.call(it.getattr(e, "_normalize"), [], {}))
        out["repr"] = it.to_repr(e)
        out["hash-consistent"] = repr(it.call_builtin("hash", [e], {}) == it.call_builtin("hash", [build(it, tree, {})], {}))
    except InterpRaise as r:
        return {"status": "raised", "exc": exc_name(r.exc)}
    except Unsupported as u:
        return {"status": "unsupported", "reason": str(u)}
    return {"status": "ok", "out": out, "set_iterated": "set-iterated" in it.flags}


def check(rep):
    model = load_model()
    names = list(battery_trees())
    perms = [("a", "b", "c", "d"), ("d", "c", "b", "a"), ("c", "a", "d", "b")]
    configs = [(so, co) for so in SET_ORDERS for co in perms]
    cases = [(n, so, co) for n in names for (so, co) in configs]
    results = pmap(battery_case, cases, chunksize=1)
    by = {}
    for (n, so, co), r in zip(cases, results):
        by.setdefault(n, []).append(((so, co), r))
    for n, runs in by.items():
        ref_cfg, ref = runs[0]
        if ref["status"] == "ok":
            o = ref["out"]
            for a, b in (("at", "at (reordered point, same objects)"), ("located b", "located (reordered point, same objects)")):
                if o.get(a) != o.get(b):
                    rep.violation("C18.configurations", f"{a} of {n}", "",
                                  f"the battery expression {n!r} gives {o.get(a)} at a point and {o.get(b)} at the same "
                                  f"point written with its coordinates in the reverse order (same objects, same process)",
                                  witness_class=f"{a} depends on coordinate order (same objects)")
        if ref["status"] != "ok":
            rep.unknown("C18.configurations", n, "", f"{ref.get('reason') or ref.get('exc')}")
            continue
        bad = False
        for cfg, r in runs[1:]:
            rep.count("configurations_compared")
            if r["status"] != "ok":
                rep.unknown("C18.configurations", n, "", f"{cfg}: {r.get('reason') or r.get('exc')}")
                bad = True
                continue
            for k, v in ref["out"].items():
                if r["out"].get(k) != v:
                    what = "set iteration order" if cfg[0] != ref_cfg[0] and cfg[1] == ref_cfg[1] else (
                        "coordinate order of the point" if cfg[0] == ref_cfg[0] else "set iteration / coordinate order")
                    rep.violation("C18.configurations", f"{k.split(' ')[0]} of {n}", "",
                                  f"{k} of the battery expression {n!r} depends on the {what}: "
                                  f"{v[:150]} (order {ref_cfg}) vs {r['out'].get(k, '')[:150]} (order {cfg})",
                                  witness={"reference": ref_cfg, "other": cfg, "key": k},
                                  witness_class=f"{k.split(' ')[0]} depends on {what}")
                    bad = True
                    break
        if not bad:
            rep.ok("C18.configurations", n, "", f"{len(ref['out'])} results identical under {len(runs)} configurations "
                   f"(4 set iteration orders x 3 coordinate orders)", cases=len(runs) * len(ref["out"]))
    # static order-taint analysis
    t = Taint(model)
    for s in t.sites:
        construct = f"{s['func'].qualname}: {s['what']} over {s['kind']} `{s['src'][:50]}`"
        if s["ok"]:
            rep.ok("C18.order-taint", construct, s["where"], s["why"])
        else:
            rep.violation("C18.order-taint", f"{s['func'].qualname}: {s['what']}", s["where"],
                          f"{s['src']}: iteration over a {'set' if s['kind'] == 'set' else 'dict ordered by a set'} "
                          f"reaches an ordered or accumulated result -- {s['why']}", witness_class=s["what"])
    for u in identity_uses(model):
        construct = f"{u['func'].qualname}: {u['call']}()"
        if u["ok"]:
            rep.ok("C18.no-identity", construct, u["where"], "hash() inside __hash__ only", nontrivial=False)
        else:
            rep.violation("C18.no-identity", construct, u["where"],
                          f"{u['call']}() outside a __hash__ body: its value differs from process to process",
                          witness_class=u["call"])
    for (mod, ln, name) in nondeterministic_imports(model):
        rep.violation("C18.no-nondeterminism", f"{mod.rel}: import {name}", f"{mod.rel}:{ln}",
                      f"module {name} gives access to clocks / randomness / environment", witness_class=f"import {name}")
    rep.ok("C18.no-nondeterminism", "imports", "", "no module imports random/time/os/sys/datetime/uuid/secrets/weakref",
           nontrivial=False) if not nondeterministic_imports(model) else None
    rep.extra["tainted_iteration_sites"] = len(t.sites)
    rep.extra["set_kinds"] = {"fields": sorted(k for k, v in t.field_kind.items() if v == "set"),
                              "ordered_by_set_fields": sorted(k for k, v in t.field_kind.items() if v == "odict"),
                              "params": sorted(f"{q}({p})" for (q, p), v in t.param_kind.items() if v)}
    rep.sample({"site": t.sites[0]["src"] if t.sites else None})
    rep.require_floor("C18.order-taint", 3, "iteration sites over sets / set-ordered dicts")
    rep.require_floor("C18.configurations", 4, "battery expressions")
    rep.assume("CPython float operations and libm calls are themselves deterministic on one machine (not a property "
               "of this code)", "Point.__repr__ echoes the coordinates in the order written (C13) and is not a result "
               "of evaluation, differentiation or simplification")
    return rep.finish(
        explanation="(1) Order-taint analysis: kinds 'set' and 'dict ordered by a set' are inferred for locals, "
                    "parameters (annotations and arguments at resolved call sites), fields and returns to a fixed point; "
                    "every iteration site over such a value must be order-free (keyed stores, set/dict building, "
                    "order-free consumers); ordered lists, argument lists, joins, accumulation, positional choice are "
                    "violations. hash()/id() only inside __hash__; no clock/random/environment imports. (2) A battery of "
                    "four-variable expressions is interpreted abstractly under four different set iteration orders and "
                    "three coordinate orders: every numeric and symbolic result must be identical.",
        technique="static order-taint (dataflow) analysis + abstract interpretation under permuted set/dict orders",
        exhaustive=False)
