"""C07 -- derivative queries fail exactly where the expression itself is undefined."""
from __future__ import annotations
from ..model import load_model
from ..derivcommon import run_derivative_property
from ..derivengine import ROUTES
from ..structure import check_must_visit


def check(rep):
    model = load_model()
    run_derivative_property(rep, "C07", routes=list(ROUTES), expr_routes=[], judge_mode="raise",
                            explanation="", include_undefined_children=True)
    check_must_visit(rep, model, "C07.must-visit")
    rep.require_floor("C07.raise", 100, "class/route combinations")
    rep.require_floor("C07.must-visit", 12, "forward/reverse rule methods x child fields")
    return rep.finish(
        explanation="(1) Abstract interpretation of all 14 numeric derivative routes (early and late) on every "
                    "class and on every parent class with a possibly-undefined child in each argument position "
                    "(zero factors, zero numerators, base one, constant exponents): DomainError iff the "
                    "specification says the expression is undefined at the region. (2) CFG must-pass-through: "
                    "no normal exit of a forward/reverse rule skips evaluating or visiting a child.",
        technique="static abstract interpretation + CFG must-pass-through", exhaustive=True)
