"""C11 -- simplification terminates in a rule-free form, without cycles."""
from __future__ import annotations
from ..model import load_model
from ..harness import build, run_paths
from ..evalengine import pmap
from ..simpengine import (rule_inputs, variable_free_inputs, reduce_trace, applicable_rules, random_trees,
                          unary_chains)
from ..derivengine import obj_to_tree, _strip_sym
from ..termination import check_certificate_step, tree_size
from .. import spec


def families():
    """Structured larger inputs: long chains and combinations that enable several rules at once."""
    x, y = ("Variable", "x"), ("Variable", "y")
    out = []
    t = x
    for i in range(12):
        t = ("Negation", t)
    out.append((t, "chain:negations"))
    t = x
    for i in range(10):
        t = ("Reciprocal", ("Negation", t))
    out.append((t, "chain:reciprocal-negation"))
    t = x
    for i in range(8):
        t = ("NthPower", ("NthRoot", t, 2 + i % 3), 2 + (i + 1) % 3)
    out.append((t, "chain:power-root"))
    t = x
    for i in range(8):
        t = ("Exponential", ("Logarithm", t, 2), 2)
    out.append((t, "chain:exp-log"))
    t = x
    for i in range(6):
        t = ("Power", t, ("Negation", y))
    out.append((t, "chain:power-negation"))
    t = ("Add", [x, y])
    for i in range(6):
        t = ("Add", [t, ("Negation", ("Add", [x, ("Constant", i)]))])
    out.append((t, "nest:sums"))
    t = ("Multiply", [x, y])
    for i in range(6):
        t = ("Multiply", [("Reciprocal", t), ("Negation", x), ("NthPower", y, 2), ("NthPower", x, 2)])
    out.append((t, "nest:products"))
    out.append((("Minus", ("Divide", x, ("Minus", y, x)), ("Divide", ("Negation", x), ("Power", y, ("Constant", -1)))),
                "mix:minus-divide"))
    out.append((("Multiply", [("Exponential", x, 2), ("Exponential", y, 2), ("Exponential", x, 2.0),
                              ("NthRoot", x, 2), ("NthRoot", y, 2), ("Logarithm", x, 2)]), "mix:consolidation"))
    out.append((("Logarithm", ("NthPower", ("Reciprocal", ("Exponential", x, 3)), 3), 3), "mix:log-power-recip-exp"))
    return out


_BUDGET = {}


def library_budget(model) -> int:
    """the library's own REDUCTION_STEPS_BOUND, read from the source"""
    if "v" not in _BUDGET:
        import ast as _ast
        v = 1000
        for mod in model.modules.values():
            b = mod.bindings.get("REDUCTION_STEPS_BOUND")
            if b is not None and b[0] == "global" and isinstance(b[1], _ast.Constant) and isinstance(b[1].value, int):
                v = b[1].value
        _BUDGET["v"] = v
    return _BUDGET["v"]


def redex_shapes(t, parent=None):
    """Shapes that the library's structural rules remove (flattening, constant consolidation, double
    negation / reciprocal, elimination of Minus and Divide) -- looked for directly in a form, without
    asking the library's reducers whether they apply."""
    k = t[0]
    if k == "ConstantSym":
        return
    kids = spec.children(t)
    if k in spec.NARY:
        if parent == k:
            yield f"{k} directly inside {k}"
        if sum(1 for c in kids if c[0] in ("Constant", "ConstantSym")) > 1:
            yield f"several constants in one {k}"
    if k in ("Minus", "Divide"):
        yield f"{k} node"
    if k in ("Negation", "Reciprocal") and parent == k:
        yield f"{k} of {k}"
    for c in kids:
        yield from redex_shapes(c, k)


def armed_shapes(model) -> dict:
    """shape -> minimal redex on which the CURRENT library was seen to remove it (a shape whose minimal
    instance the library leaves alone is not a redex of this rule set and is not required to vanish)."""
    a, b, c = (("Variable", n) for n in ("a", "b", "c"))
    probes = {}
    for k in spec.NARY:
        if k in model.classes:
            probes[f"{k} directly inside {k}"] = (k, [(k, [a, b]), c])
            probes[f"several constants in one {k}"] = (k, [("Constant", 2), ("Constant", 3), a])
    for k in ("Negation", "Reciprocal"):
        if k in model.classes:
            probes[f"{k} of {k}"] = (k, (k, a))
    for k in ("Minus", "Divide"):
        if k in model.classes:
            probes[f"{k} node"] = (k, a, b)
    armed = {}
    for shape, tree in probes.items():
        tr = reduce_trace((tree, 200))
        if tr["kind"] == "ok" and len(tr["seq"]) >= 2 and tr["seq"][-2][1] is not None \
                and shape not in set(redex_shapes(tr["seq"][-2][1])):
            armed[shape] = spec.show(tree)
    return armed


def term_case(args):
    tree, label = args
    model = load_model()
    budget = library_budget(model)
    tr = reduce_trace((tree, budget))
    out = {"tree": spec.show(tree), "label": label, "kind": tr["kind"], "size": tree_size(tree)}
    if tr["kind"] != "ok":
        out.update({k: v for k, v in tr.items() if k != "kind"})
        return out
    seq = tr["seq"]
    out["warnings"] = tr["warnings"]
    forms = [e[1] for e in seq[:-1] if e[1] is not None]     # the rewrite sequence proper
    out["n_steps"] = len(forms) - 1
    out["driver_calls"] = tr["end"][1] if tr["end"] else None
    seen = {}
    for i, t in enumerate(forms):
        key = repr(t)
        if key in seen:
            out["revisit"] = {"first": seen[key], "again": i, "form": seq[i][2],
                              "via": [e[0] for e in seq[seen[key] + 1:i + 1]]}
            break
        seen[key] = i
    if seq[-1][1] is None and "grew beyond" in seq[-1][0]:
        out["grew"] = seq[-1][0]
        out["unfinished"] = True
        out["last_forms"] = [e[2] for e in seq[-4:-1] if e[2]]
    elif seq[-2][1] is None or seq[-1][1] is None:
        out["unfinished"] = True
    cert = []
    for e0, e1 in zip(seq, seq[1:-1]):
        (w0, a, ra), (w, b, rb) = e0[:3], e1[:3]
        if a is None or b is None:
            break
        ok, why = check_certificate_step(a, b)
        if not ok:
            cert.append({"who": w, "from": ra, "to": rb, "why": why})
    out["cert_failures"] = cert[:4]
    out["cert_steps"] = max(0, len(seq) - 2)
    # rule-free: a fresh copy of the fully reduced form (flags cleared) must not reduce further
    if not out.get("unfinished") and "revisit" not in out:
        reduced = seq[-2][1]
        out["shapes"] = sorted(set(redex_shapes(reduced)))
        out["reduced"] = seq[-2][2]
        ar = applicable_rules((reduced,))
        if ar["kind"] == "ok" and ar["found"]:
            out["not_rule_free"] = {"form": seq[-2][2], "then": [(w, f"{at} -> {to}") for (w, at, to) in ar["found"][:3]]}
        elif ar["kind"] == "unsupported":
            out["rule_free_unknown"] = ar["msg"]
    return out


def reuse_inners():
    """Small expressions whose simplified forms re-introduce Minus/Divide or keep products of reciprocals."""
    x, y = ("Variable", "x"), ("Variable", "y")
    return [("Multiply", [x, ("Reciprocal", y)]), ("Add", [x, ("Negation", y)]), ("Reciprocal", ("Multiply", [x, y])),
            ("Divide", ("Sine", x), ("NthRoot", y, 2)), ("Minus", ("NthPower", x, 2), ("Logarithm", y, 2.718281828459045)),
            ("NthRoot", x, 2), ("Logarithm", ("Sine", x), 2.718281828459045), ("NthRoot", x, 3),
            ("Logarithm", ("Add", [("NthPower", x, 2), ("Constant", 1)]), 2.718281828459045)]


WRAPPERS = ["Multiply(x, r)", "NthPower(r, 2)", "Divide(x, r)", "Minus(x, r)", "Reciprocal(r)", "Add(r, r)",
            "Minus(x, Divide(e, r))", "Multiply(r, e)"]


def same_form(a, b) -> bool:
    """structural equality with numeric content compared up to rounding (the two runs may fold
    constants in a different order)"""
    if a[0] != b[0]:
        return False
    if a[0] == "Variable":
        return a[1] == b[1]
    if a[0] == "Constant":
        p, q = float(a[1]), float(b[1])
        return abs(p - q) <= 1e-9 * max(abs(p), abs(q)) + 1e-300
    ca, cb = spec.children(a), spec.children(b)
    if len(ca) != len(cb) or not all(same_form(u, v) for u, v in zip(ca, cb)):
        return False
    if a[0] in spec.PARAM:
        return abs(float(a[2]) - float(b[2])) <= 1e-9 * abs(float(a[2]))
    return True


def reuse_case(args):
    """Worker: an expression built from *objects returned by earlier simplifications* (a normal form, a
    symbolic derivative) must still be rewritten to a rule-free form -- the same one a freshly built,
    structurally equal expression reaches."""
    inner, how, wrapper = args
    from ..harness import cref
    model = load_model()

    def thunk(it):
        e = build(it, inner, {})
        x = build(it, ("Variable", "x"), {})
        if how == "normal form":
            r = it.call(it.getattr(e, "_normalize"), [], {})
        else:
            r = it.call(it.getattr(it.call(cref(model, "Partial"), [e, "x"], {}), "as_expression"), [], {})
        mk = lambda name, *a, **kw: it.call(cref(model, name), list(a), kw)
        g = {"Multiply(x, r)": lambda: mk("Multiply", x, r), "NthPower(r, 2)": lambda: mk("NthPower", r, n=2),
             "Divide(x, r)": lambda: mk("Divide", x, r), "Minus(x, r)": lambda: mk("Minus", x, r),
             "Reciprocal(r)": lambda: mk("Reciprocal", r), "Add(r, r)": lambda: mk("Add", r, r),
             "Minus(x, Divide(e, r))": lambda: mk("Minus", x, mk("Divide", e, r)),
             "Multiply(r, e)": lambda: mk("Multiply", r, e)}[wrapper]()
        written = obj_to_tree(it, g)
        reduced = None
        if model.resolve_method(g.cls, "_fully_reduce") is not None and \
                model.resolve_method(g.cls, "_normalize_fully_reduced") is not None:
            red = it.call(it.getattr(g, "_fully_reduce"), [], {})
            reduced = obj_to_tree(it, red)      # the form the rewriter declares rule-free
            got = obj_to_tree(it, it.call(it.getattr(red, "_normalize_fully_reduced"), [], {}))
        else:
            got = obj_to_tree(it, it.call(it.getattr(g, "_normalize"), [], {}))
        fresh = obj_to_tree(it, it.call(it.getattr(build(it, _strip_sym(written), None), "_normalize"), [], {}))
        return written, got, fresh, reduced
    outs = run_paths(model, thunk, max_paths=2, max_steps=8000000, generic_only=True)
    o = outs[0]
    if o["kind"] == "raise":
        from ..harness import exc_name
        return {"kind": "raise", "exc": exc_name(o["exc"])}
    if o["kind"] != "return":
        return {"kind": "unsupported", "msg": o["msg"]}
    written, got, fresh, reduced = o["value"]
    out = {"kind": "ok", "written": spec.show(written), "got": spec.show(got), "fresh": spec.show(fresh),
           "same": same_form(_strip_sym(got), _strip_sym(fresh))}
    if reduced is not None:
        out["reduced"] = spec.show(reduced)
        ar = applicable_rules((reduced,))
        if ar["kind"] == "ok" and ar["found"]:
            out["not_rule_free"] = [(w, f"{at} -> {to}") for (w, at, to) in ar["found"][:3]]
    return out


def idempotence_case(args):
    """Worker: simplify, rebuild the result from scratch (fresh objects, no flags), simplify again: a form
    to which no rule applies does not change -- a criterion that does not rely on asking the library's own
    reducers whether they apply."""
    (tree,) = args
    model = load_model()

    def thunk(it):
        e = build(it, tree, {})
        first = obj_to_tree(it, it.call(it.getattr(e, "_normalize"), [], {}))
        again = obj_to_tree(it, it.call(it.getattr(build(it, _strip_sym(first), None), "_normalize"), [], {}))
        return first, again
    outs = run_paths(model, thunk, max_paths=2, max_steps=8000000, generic_only=True)
    o = outs[0]
    if o["kind"] == "raise":
        from ..harness import exc_name
        return {"kind": "raise", "exc": exc_name(o["exc"])}
    if o["kind"] != "return":
        return {"kind": "unsupported", "msg": o["msg"]}
    first, again = o["value"]
    return {"kind": "ok", "first": spec.show(first), "again": spec.show(again),
            "same": same_form(_strip_sym(first), _strip_sym(again))}


def check_idempotence(rep, inputs):
    cases = [(t, l) for (t, l) in inputs if not l.startswith("random(")]
    results = pmap(idempotence_case, [(t,) for (t, _l) in cases], chunksize=8)
    per = {}
    for (tree, label), r in zip(cases, results):
        d = per.setdefault(label, [0, 0])
        d[0] += 1
        if r["kind"] == "unsupported":
            rep.count("idempotence_cases_not_judged")
        elif r["kind"] == "raise":
            rep.count("idempotence_cases_raising")
            d[1] += 1
        elif not r["same"]:
            rep.violation("C11.idempotent", label, "",
                          f"{spec.show(tree)} simplifies to {r['first']}, but simplifying a freshly built copy of that "
                          f"result gives {r['again']}: the first run stopped at a form to which rules still apply",
                          witness=r, witness_class=f"not idempotent {label}")
        else:
            d[1] += 1
    for label, (n, good) in sorted(per.items()):
        if n == good:
            rep.ok("C11.idempotent", label, "", f"{n} inputs: simplifying the (rebuilt) result again changes nothing", cases=n)


def check_reuse(rep, model):
    cases = [(i, how, w) for i in reuse_inners() for how in ("normal form", "symbolic derivative") for w in WRAPPERS]
    results = pmap(reuse_case, cases, chunksize=4)
    good = 0
    for (inner, how, w), r in zip(cases, results):
        label = f"reuse:{w} with r = the {how} of {spec.show(inner)}"
        if r["kind"] == "unsupported":
            rep.unknown("C11.reuse", label, "", r["msg"])
        elif r["kind"] == "raise":
            if r["exc"] in ("DomainError", "OverflowError"):
                rep.count("reuse_cases_skipped")
            else:
                rep.violation("C11.reaches-normal-form", label, "", f"simplifying {label} raised {r['exc']}",
                              witness_class=f"{r['exc']} reuse")
        elif "not_rule_free" in r:
            rep.violation("C11.rule-free", f"reuse:{w}", "",
                          f"{r['written']} (built from the object returned by an earlier simplification) is declared "
                          f"fully reduced as {r['reduced']}, but {r['not_rule_free'][0][0]} still rewrites "
                          f"{r['not_rule_free'][0][1]}; a freshly built equal expression reaches {r['fresh']}",
                          witness=r, witness_class=f"not-rule-free after reuse {w}")
        elif not r["same"]:
            rep.violation("C11.reuse", f"reuse:{w}", "",
                          f"{r['written']} built from the object returned by an earlier simplification simplifies to "
                          f"{r['got']}, a freshly built equal expression to {r['fresh']}: one of the two runs stopped "
                          f"before a rule-free form", witness=r, witness_class=f"reuse {w}")
        else:
            good += 1
    if good:
        rep.ok("C11.reuse", "expressions built from returned normal forms and symbolic derivatives", "",
               f"{good} combinations (9 inner expressions x 2 kinds of returned object x 8 ways of re-using it): the "
               f"result is rule-free and equals the result for a freshly built equal expression", cases=good)


def check(rep):
    model = load_model()
    tier = rep.tier
    check_reuse(rep, model)
    inputs = rule_inputs(model, tier) + variable_free_inputs(model) + families() + unary_chains(model, tier)
    check_idempotence(rep, inputs)
    inputs += random_trees(rep.seed, 60 if tier == "quick" else 600, 30 if tier == "quick" else 80)
    results = pmap(term_case, inputs, chunksize=8)
    armed = armed_shapes(model)
    rep.extra["redex_shapes_armed"] = armed
    if len(armed) < 6:
        rep.unknown("C11.rule-free", "redex shapes", "", f"only {len(armed)} of the structural redex shapes are removed by "
                    f"the library on their minimal instance (8 on the reference tree)")
    per = {}
    max_ratio = 0.0
    worst = None
    for (tree, label), out in zip(inputs, results):
        d = per.setdefault(label, [0, 0])
        d[0] += 1
        if out["kind"] == "unsupported":
            rep.unknown("C11.trace", label, "", f"interpreter: {out['msg']} on {out['tree']}")
            continue
        if out["kind"] == "raise" and out["exc"] == "OverflowError":
            rep.count("inputs_skipped_overflow")
            d[1] += 1
            continue
        if out["kind"] == "raise":
            if out["exc"] == "RecursionError":
                rep.violation("C11.budget", label, out.get("origin", ""),
                              f"normalising the {out['size']}-node input {out['tree']} ends in RecursionError (unbounded growth)",
                              witness_class=f"recursion {label}")
            elif out["exc"] in ("TypeError", "AttributeError", "KeyError", "IndexError", "ValueError", "ZeroDivisionError",
                                "AssertionError", "NameError", "UnboundLocalError", "StopIteration"):
                rep.violation("C11.reaches-normal-form", label, out.get("origin", ""),
                              f"normalising {out['tree']} never reaches a rule-free form: a rewrite step raises "
                              f"{out['exc']}", witness_class=f"{out['exc']} {label}")
            else:
                rep.unknown("C11.trace", label, out.get("origin", ""), f"normalising {out['tree']} raised {out['exc']}")
            continue
        bad = False
        rep.count("rewrite_steps_observed", max(out["n_steps"], 0))
        if "revisit" in out:
            r = out["revisit"]
            rep.violation("C11.no-revisit", r["via"][-1] if r["via"] else label, "",
                          f"rewriting {out['tree']} revisits the form {r['form']} (step {r['first']} and again step "
                          f"{r['again']}) via {' -> '.join(r['via'])}", witness=out, witness_class=f"cycle {label}")
            bad = True
        if out["kind"] == "ok" and out.get("grew") and out["size"] <= 20:
            rep.violation("C11.growth", label, "",
                          f"rewriting the {out['size']}-node input {out['tree']} {out['grew'].strip('<>')}: the expression grows "
                          f"without bound (e.g. {out.get('last_forms', ['?'])[-1][:200]} ...)", witness=None,
                          witness_class=f"growth {label}")
            bad = True
        elif out["kind"] == "ok" and (out.get("unfinished") or any("nable to fully reduce" in w[1] for w in out.get("warnings", []))) \
                and out["size"] <= 20:
            rep.violation("C11.budget", label, "",
                          f"the {out['size']}-node input {out['tree']} is not fully reduced within the library's own step "
                          f"budget (REDUCTION_STEPS_BOUND): _fully_reduce falls back to the warning path", witness=out, witness_class=f"budget {label}")
            bad = True
        elif out.get("unfinished"):
            rep.unknown("C11.trace", label, "", f"{out['tree']} ({out['size']} nodes): the library's step budget is exhausted")
            bad = True
        if "not_rule_free" in out:
            n = out["not_rule_free"]
            rep.violation("C11.rule-free", label, "",
                          f"{out['tree']} is declared fully reduced as {n['form']}, but a fresh copy of that form is "
                          f"rewritten further by {n['then'][0][0]} to {n['then'][0][1]}", witness=out,
                          witness_class=f"not-rule-free {n['then'][0][0]}")
            bad = True
        left = [s for s in out.get("shapes", []) if s in armed]
        if left and "not_rule_free" not in out:
            rep.violation("C11.rule-free", label, "",
                          f"{out['tree']} is declared fully reduced as {out['reduced']}, which still contains "
                          f"'{left[0]}' although the library rewrites the minimal instance {armed[left[0]]}: a rule applies "
                          f"(the reducer that should fire declines here)", witness=out,
                          witness_class=f"redex shape left: {left[0]}")
            bad = True
        if "rule_free_unknown" in out:
            rep.unknown("C11.rule-free", label, "", out["rule_free_unknown"])
            bad = True
        for c in out.get("cert_failures", []):
            rep.unknown("C11.certificate", c["who"], "", f"step {c['from']} -> {c['to']} is not oriented by the "
                        f"termination certificate ({c['why']})")
            bad = True
        rep.count("certificate_steps_checked", out.get("cert_steps", 0))
        if out["n_steps"] > 0:
            ratio = out["n_steps"] / float(out["size"] ** 2)
            if ratio > max_ratio:
                max_ratio, worst = ratio, (out["tree"], out["n_steps"], out["size"])
        if not bad:
            d[1] += 1
    for label, (n, good) in sorted(per.items()):
        if n == good:
            rep.ok("C11.trace", label, "", f"{n} inputs: no form revisited, budget not exhausted, result rule-free, "
                   f"every step oriented by the certificate", cases=n)
    rep.extra["max_steps_over_size_squared"] = round(max_ratio, 3)
    rep.extra["worst_case"] = worst
    rep.extra["inputs"] = len(inputs)
    rep.sample({"worst steps/size^2": worst})
    rep.require_floor("C11.trace", 60, "input families")
    rep.assume("the quadratic step bound is observed (max steps/size^2 reported), not proved; termination for "
               "arbitrary inputs rests on the certificate (termination.py) being checked on every observed rule "
               "instance with variables standing for arbitrary sub-expressions")
    return rep.finish(
        explanation="The rewriting driver is interpreted abstractly step by step on every enumerated rule input "
                    "and on structured larger families (long chains, nested sums/products, several rules enabled at "
                    "once): no form may be revisited, inputs of <= 20 nodes may not reach the library's warning "
                    "fallback, a fresh copy of the final form must be rule-free, and every observed rewrite step "
                    "must be strictly decreasing in a fixed well-founded order (symbol-count measures then a "
                    "recursive path order) so that the observed rule instances cannot be chained forever.",
        technique="static abstract interpretation of the rewriter + termination certificate (weights + recursive path order)",
        exhaustive=False)
