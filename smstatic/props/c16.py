"""C16 -- ill-formed expressions are rejected at construction (and parameters are reported back)."""
from __future__ import annotations
import math
from ..model import load_model
from ..harness import build, cref, run_paths, exc_name, exc_origin
from ..evalengine import pmap
from ..objengine import make_point_concrete
from ..derivengine import obj_to_tree
from ..values import SymNum, Obj
from .. import spec

E = math.e
FOREIGN = [("3", 3), ("2.5", 2.5), ("'x'", "x"), ("None", None), ("[]", "LIST"), ("Point()", "POINT"),
           ("<a foreign object with a _variable_names attribute>", "LOOKALIKE-VARS"),
           ("<a foreign object carrying all attributes of a Variable>", "LOOKALIKE-FULL"),
           ("<a Derivative object>", "DERIVATIVE")]
N_VALUES = [(1, True), (2, True), (7, True), (1000, True), (0, False), (-1, False), (-3, False),
            (2.0, True), (5.0, True), (1.0, True), (0.0, False), (-2.0, False), (2.5, False), (0.5, False),
            (1e-9, False), ("2", False), (None, False), (math.inf, False),
            (2.000000001, False), (1.9999999999999998, False), (2.0000000000001, False), (3 - 1e-12, False),
            (1000000000.5, False), (1e300, True),
            # integers that no float holds exactly must be accepted and reported back unchanged
            (2 ** 53 + 1, True), (10 ** 23, True), (10 ** 400, True)]
EXP_BASES = [(0.5, True), (1, True), (1.0, True), (2, True), (E, True), (10.0, True), (1e-9, True), (1e-300, True),
             (10 ** 400, True), (2 ** 53 + 1, True),
             (0, False), (0.0, False), (-1, False), (-0.5, False), (-E, False)]
LOG_BASES = [(0.5, True), (2, True), (E, True), (10.0, True), (1e-9, True), (1 + 1e-12, True), (1 - 1e-12, True),
             (10 ** 400, True), (2 ** 53 + 1, True),
             (1e-300, True), (1, False), (1.0, False),
             (0, False), (0.0, False), (-1, False), (-0.5, False)]
NAMES = [("x", True), ("x1", True), ("_a", True), ("9", True), ("long_name_2", True), ("αβ", True),
         ("self", True), ("kwargs", True), ("", False), ("a b", False), ("a-b", False), ("x.y", False),
         ("x\n", False), (" x", False), ("x;", False), ("a+b", False), ("é!", False),
         ("e\u0301", False), ("a\u203fb", False), ("x\u00b7y", False), ("x\uff3f", False), ("\u00b5", True), ("x\u00b2", True),
         ("\ufb01", True), ("x\u0660", True), ("x\u200d", False), ("x\u00ad", False)]


def lift(v):
    return SymNum.of(v) if isinstance(v, float) else v


def ctor_case(args):
    cname, posargs, kwargs, expect_ok, report = args
    model = load_model()

    def conv(it, v):
        if isinstance(v, tuple) and v and v[0] in spec.ALL_CLASSES:
            return build(it, v, {})
        if v == "LIST":
            return []
        if v == "POINT":
            return make_point_concrete(it, {})
        if v == "LOOKALIKE-VARS":
            from ..objengine import impostor
            return impostor(it, "Lookalike", {"_variable_names": set()})
        if v == "LOOKALIKE-FULL":
            from ..objengine import impostor
            return impostor(it, "Lookalike", dict(build(it, ("Variable", "q"), {}).attrs))
        if v == "DERIVATIVE":
            return it.call(cref(model, "Derivative"), [build(it, ("Variable", "q"), {})], {})
        return lift(v)

    def thunk(it):
        o = it.call(cref(model, cname), [conv(it, a) for a in posargs], {k: conv(it, v) for k, v in kwargs.items()})
        rep = {}
        for attr in report:
            v = it.getattr(o, attr)
            if isinstance(v, SymNum):
                rep[attr] = ("float", v.conc)
            elif isinstance(v, bool) or isinstance(v, int):
                rep[attr] = ("int", v)
            else:
                rep[attr] = (type(v).__name__, v if isinstance(v, str) else repr(v))
        return rep
    outs = run_paths(model, thunk, max_paths=2, generic_only=True)
    o = outs[0]
    if o["kind"] == "raise":
        return {"outcome": "raise", "exc": exc_name(o["exc"]), "origin": exc_origin(o["exc"])}
    if o["kind"] != "return":
        return {"outcome": "unsupported", "reason": o["msg"]}
    return {"outcome": "accept", "report": o["value"]}


def check(rep):
    model = load_model()
    names = {c.name for c in model.concrete_expression_classes()}
    x, y = ("Variable", "x"), ("Variable", "y")
    cases = []      # (label, rule, cname, pos, kw, expect_ok, report, expected_report)

    def add(label, rule, cname, pos, kw, ok, report=(), want=None):
        if cname in names:
            cases.append((label, rule, cname, pos, kw, ok, tuple(report), want))
    # operands
    for k in sorted(names):
        if k in spec.UNARY:
            add(f"{k}(<expression>)", "C16.operands", k, [x], {}, True)
            for fl, fv in FOREIGN:
                add(f"{k}({fl})", "C16.operands", k, [fv], {}, False)
        elif k in ("NthPower", "NthRoot"):
            for fl, fv in FOREIGN:
                add(f"{k}({fl}, n=2)", "C16.operands", k, [fv], {"n": 2}, False)
            for n, ok in N_VALUES:
                add(f"{k}(x, n={n!r})", "C16.params", k, [x], {"n": n}, ok, ["n"], {"n": ("int", int(n))} if ok else None)
                add(f"{k}(x, {n!r})", "C16.params", k, [x, n], {}, ok, ["n"], {"n": ("int", int(n))} if ok else None)
            # the validation may not depend on what the operand is (e.g. a node of the same class)
            for inner, il in (((k, x, 2), f"{k}(x, 2)"), ((k, x, 4), f"{k}(x, 4)"), (("Negation", x), "Negation(x)"),
                              (("NthRoot" if k == "NthPower" else "NthPower", x, 2), "the inverse node")):
                for n, ok in N_VALUES:
                    if isinstance(n, (int, float)) and not isinstance(n, bool) and abs(n) < 1e6:
                        add(f"{k}({il}, n={n!r})", "C16.params", k, [inner], {"n": n}, ok, ["n"],
                            {"n": ("int", int(n))} if ok else None)
        elif k in ("Exponential", "Logarithm"):
            for fl, fv in FOREIGN:
                add(f"{k}({fl})", "C16.operands", k, [fv], {}, False)
            add(f"{k}(x)", "C16.params", k, [x], {}, True, ["base"], {"base": ("float", E)})
            for b, ok in (EXP_BASES if k == "Exponential" else LOG_BASES):
                want = {"base": ("num", b)} if ok else None
                add(f"{k}(x, base={b!r})", "C16.params", k, [x], {"base": b}, ok, ["base"], want)
                add(f"{k}({k}(x, 2), base={b!r})", "C16.params", k, [(k, x, 2)], {"base": b}, ok, ["base"], want)
                other = "Logarithm" if k == "Exponential" else "Exponential"
                add(f"{k}({other}(x, 2), base={b!r})", "C16.params", k, [(other, x, 2)], {"base": b}, ok, ["base"], want)
        elif k in spec.BINARY:
            add(f"{k}(<expression>, <expression>)", "C16.operands", k, [x, y], {}, True)
            for fl, fv in FOREIGN:
                add(f"{k}({fl}, y)", "C16.operands", k, [fv, y], {}, False)
                add(f"{k}(x, {fl})", "C16.operands", k, [x, fv], {}, False)
        elif k in spec.NARY:
            add(f"{k}()", "C16.operands", k, [], {}, True)
            add(f"{k}(x, y, x)", "C16.operands", k, [x, y, x], {}, True)
            for fl, fv in FOREIGN:
                add(f"{k}({fl})", "C16.operands", k, [fv], {}, False)
                add(f"{k}({fl}, x, y)", "C16.operands", k, [fv, x, y], {}, False)
                add(f"{k}(x, {fl}, y)", "C16.operands", k, [x, fv, y], {}, False)
                add(f"{k}(x, y, {fl})", "C16.operands", k, [x, y, fv], {}, False)
        elif k == "Variable":
            for nm, ok in NAMES:
                add(f"Variable({nm!r})", "C16.names", k, [nm], {}, ok, ["name"], {"name": ("str", nm)} if ok else None)
            for fl, fv in FOREIGN:
                if fv != "x":
                    add(f"Variable({fl})", "C16.names", k, [fv], {}, False)
        elif k == "Constant":
            for v in (0, 2, -3, 2.5, -0.0, 1e300):
                add(f"Constant({v!r})", "C16.report", k, [v], {}, True, ["value"], {"value": ("num", v)})
    results = pmap(ctor_case, [(c[2], c[3], c[4], c[5], c[6]) for c in cases], chunksize=8)
    per = {}
    for (label, rule, cname, pos, kw, ok, report, want), r in zip(cases, results):
        construct = f"{cname}.__init__"
        d = per.setdefault((rule, cname), [0, 0])
        d[0] += 1
        where = model.cls(cname).where
        if r["outcome"] == "unsupported":
            rep.unknown(rule, construct, where, f"{label}: {r['reason']}")
            continue
        if ok and r["outcome"] == "raise":
            rep.violation(rule, construct, r.get("origin", where),
                          f"{label} is within the documented range but the constructor raised {r['exc']}",
                          witness_class=f"rejects-legal {_cls(label)}")
            continue
        if not ok and r["outcome"] == "accept":
            rep.violation(rule, construct, where,
                          f"{label} is outside the documented range but the constructor accepted it",
                          witness_class=f"accepts-illegal {_cls(label)}")
            continue
        if ok and want:
            bad = None
            for attr, (ty, val) in want.items():
                got = r["report"].get(attr)
                if got is None:
                    bad = f".{attr} missing"
                elif ty == "int" and (got[0] != "int" or got[1] != val):
                    bad = f".{attr} is {got[1]!r} ({got[0]}), expected the integer {val}"
                elif ty in ("num", "float") and (got[0] not in ("int", "float") or got[1] != val):
                    bad = f".{attr} is {got[1]!r}, expected {val!r}"
                elif ty == "str" and got[1] != val:
                    bad = f".{attr} is {got[1]!r}, expected {val!r}"
            if bad:
                rep.violation("C16.report", construct, where, f"{label}: {bad}", witness_class=f"report {_cls(label)}")
                continue
        d[1] += 1
    for (rule, cname), (n, good) in sorted(per.items()):
        if n == good:
            rep.ok(rule, f"{cname}.__init__", model.cls(cname).where,
                   f"{n} argument classes: accept/reject and reported parameters as documented", cases=n)
    rep.sample({"n values": [repr(v) for v, _ in N_VALUES], "names": [n for n, _ in NAMES]})
    rep.require_floor("C16.operands", 13, "constructors")
    rep.require_floor("C16.params", 4, "parameterised constructors")
    rep.assume("NaN and infinities as base are not reals and are not examined (inf as n is rejected)",
               "bool is an int in Python; n=True is not examined")
    return rep.finish(
        explanation="Every constructor is interpreted abstractly from source on representatives of every argument "
                    "class: operands (expression / number / string / None / list / Point, in every position of "
                    "n-ary nodes), n (positive, zero and negative ints; integral and non-integral floats; strings; "
                    "None; inf), bases (negative, zero, below one, one, above one, tiny), names (word characters "
                    "incl. non-ASCII and the words 'self'/'kwargs'; empty; with spaces, punctuation, newline). "
                    "Outcome accept/raise must be the documented one and .n/.base/.name/.value must report the "
                    "argument back (n as the integer).",
        technique="static abstract interpretation of the constructors over argument classes",
        exhaustive=False)


def _cls(label: str) -> str:
    return label.split("(")[0] + ":" + ("n" if "n=" in label or ", " in label and label.startswith("Nth") else
                                        "base" if "base=" in label else "operand/name")
