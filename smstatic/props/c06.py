"""C06 -- early, late and every other differentiation route give the same answers."""
from __future__ import annotations
from ..model import load_model
from ..harness import build, make_point, cref, run_paths, exc_name, partition, valuations
from ..derivcommon import derivative_cases, chain_instances, sparse_atoms
from ..derivengine import deriv_group, ROUTES, obj_to_tree, _ctor, _m, EARLY
from ..evalengine import pmap, depth1_instances, region_class, param_class
from ..structure import check_routing
from .. import spec


def outcome_class(rs):
    """Collapse the per-path results of one route into a comparable outcome."""
    kinds = set()
    precise = [r for r in rs if not r.get("imprecise")]
    if not precise and rs:
        return {"value:unjudged"}
    for r in precise:
        if r["status"] == "unsupported":
            kinds.add("unsupported")
        elif r.get("got") == "raise":
            kinds.add("raise:" + r["exc"])
        elif r["status"] in ("ok",):
            kinds.add("value:true-partial")
        elif r["status"] == "value-differs":
            kinds.add("value:other")
        elif r["status"] == "value-unknown":
            kinds.add("value:unjudged")
        else:
            kinds.add("value:" + r["status"])
    return kinds


def expr_equalities(args):
    """Worker: interpreted structural equalities between the symbolic routes of one (tree, var)."""
    tree, var, point_val = args
    model = load_model()
    names = spec.variables(tree)
    single = len(names) == 1 and names[0] == var
    res = {}

    def pair(label, fa, fb, known_ok=None):
        def thunk(it):
            e = build(it, tree, {})
            a = fa(it, e)
            e2 = build(it, tree, {})
            b = fb(it, e2)
            eq = it.truth(it.compare("==", a, b))
            ne = it.truth(it.compare("!=", a, b))
            return eq, ne, it.to_repr(a), it.to_repr(b)
        out = []
        for o in run_paths(model, thunk, max_paths=4, max_steps=3000000, generic_only=True):
            if o["kind"] == "return":
                eq, ne, ra, rb = o["value"]
                out.append({"status": "ok" if (eq and not ne) else "unequal", "a": ra, "b": rb})
            elif o["kind"] == "raise":
                out.append({"status": "raised", "exc": exc_name(o["exc"])})
            else:
                out.append({"status": "unsupported", "reason": o["msg"]})
        res[label] = out

    P = lambda it, e, **kw: _ctor(it, "Partial", [e, var], kw)
    pair("Partial.as_expression: early == late",
         lambda it, e: _m(it, P(it, e, compute_early=True), "as_expression"),
         lambda it, e: _m(it, P(it, e), "as_expression"))
    if single:
        pair("Derivative.as_expression: early == late",
             lambda it, e: _m(it, _ctor(it, "Derivative", [e], EARLY), "as_expression"),
             lambda it, e: _m(it, _ctor(it, "Derivative", [e]), "as_expression"))
        pair("Derivative.as_expression == Partial.as_expression",
             lambda it, e: _m(it, _ctor(it, "Derivative", [e]), "as_expression"),
             lambda it, e: _m(it, P(it, e), "as_expression"))
    pair("Differential.component.as_expression: late == Partial late",
         lambda it, e: _m(it, _m(it, _ctor(it, "Differential", [e]), "component", var), "as_expression"),
         lambda it, e: _m(it, P(it, e), "as_expression"))
    pair("Differential.component.as_expression: early == late",
         lambda it, e: _m(it, _m(it, _ctor(it, "Differential", [e], EARLY), "component", var), "as_expression"),
         lambda it, e: _m(it, _m(it, _ctor(it, "Differential", [e]), "component", var), "as_expression"))
    for early in (False, True):
        kw = EARLY if early else {}
        tag = "(early)" if early else ""
        pair(f"Differential{tag}.component(v) == Partial(e, v)",
             lambda it, e, kw=kw: _m(it, _ctor(it, "Differential", [e], kw), "component", var),
             lambda it, e: P(it, e))
    if point_val is not None:
        for early in (False, True):
            kw = EARLY if early else {}
            tag = "(early)" if early else ""
            pair(f"Differential{tag}.at(p) == LocatedDifferential(e, p)",
                 lambda it, e, kw=kw: _m(it, _ctor(it, "Differential", [e], kw), "at", make_point(it, point_val)),
                 lambda it, e: _ctor(it, "LocatedDifferential", [e, make_point(it, point_val)]))
    return res


def check(rep):
    model = load_model()
    tier = rep.tier
    routes = list(ROUTES)
    cases, unknown = derivative_cases(model, tier, include_undefined_children=True, routes=routes)
    groups = {}
    for idx, (t, l, v, var, rts) in enumerate(cases):
        groups.setdefault((id(t), var, tuple(rts)), (t, var, rts, []))[3].append(idx)
    tasks = []
    for (t, var, rts, idxs) in groups.values():
        for k in range(0, len(idxs), 40):
            part = idxs[k:k + 40]
            tasks.append(((t, var, [cases[i][2] for i in part], rts, [], True, tier), part))
    gres = pmap(deriv_group, [a for (a, _p) in tasks], chunksize=1)
    results = [None] * len(cases)
    for (a, part), outs in zip(tasks, gres):
        for i, o in zip(part, outs):
            results[i] = o
    per = {}
    for (tree, label, val, var, _r), out in zip(cases, results):
        if "skip" in out:
            rep.count("cases_skipped_sign_undetermined")
            continue
        oc = {route: outcome_class(rs) for route, rs in out["routes"].items()}
        d = per.setdefault(label, [0, 0])
        d[0] += 1
        rep.count("route_outcomes_compared", len(oc))
        allk = set().union(*oc.values()) if oc else set()
        if "unsupported" in allk:
            rep.unknown("C06.agree", label, "", "interpreter could not follow a route on " + out["tree"])
            continue
        judged = {r: k for r, k in oc.items() if "value:unjudged" not in k}
        distinct = {frozenset(k) for k in judged.values()}
        if len(distinct) <= 1:
            d[1] += 1
            continue
        # majority outcome vs deviants
        from collections import Counter
        cnt = Counter(frozenset(k) for k in judged.values())
        major = cnt.most_common(1)[0][0]
        deviants = sorted(r for r, k in judged.items() if frozenset(k) != major)
        imprecise = False      # results on undecided paths were already left out by outcome_class
        msg = (f"{out['tree']} d/d{var} at {{{out['val']}}}: routes disagree: "
               + "; ".join(f"{r} -> {'/'.join(sorted(judged[r]))}" for r in deviants)
               + f" while the others give {'/'.join(sorted(major))}")
        if imprecise:
            rep.unknown("C06.agree", f"{label}: {deviants[0]}", "", "only on an undecided path: " + msg)
        else:
            for r in deviants:
                rep.violation("C06.agree", f"{label} via {r}", "", msg,
                              witness={"routes": {k: sorted(v) for k, v in oc.items()}},
                              witness_class="/".join(sorted(judged[r])) + " vs " + "/".join(sorted(major))
                              + f" {param_class(tree)}")
    for label, (n, good) in sorted(per.items()):
        if n == good:
            rep.ok("C06.agree", label, "", f"{n} cases: all applicable routes give the same outcome", cases=n)

    # structural equality of the symbolic results and of the delegating objects
    inst1, _ = depth1_instances(model, "quick")
    insts = [(t, l) for (t, l) in inst1 if t[0] not in ("Constant",)] + chain_instances(model, tier)
    atoms = sparse_atoms(partition(model, "quick"))
    etasks = []
    for tree, label in insts:
        names = spec.variables(tree)
        pv = {n: atoms[-1] for n in names}
        for var in names[:2] + ["absent"]:
            etasks.append(((tree, var, pv), label))
    eres = pmap(expr_equalities, [a for (a, _l) in etasks], chunksize=2)
    eper = {}
    for ((tree, var, _pv), label), res in zip(etasks, eres):
        for what, outs in res.items():
            d = eper.setdefault((what, label), [0, 0])
            d[0] += 1
            good = True
            for o in outs:
                if o["status"] == "ok":
                    continue
                good = False
                construct = f"{what} [{label}]"
                if o["status"] == "unsupported":
                    rep.unknown("C06.equal", construct, "", o["reason"])
                else:
                    rep.violation("C06.equal", what, "",
                                  f"{spec.show(tree)} w.r.t. {var}: {what} does not hold: "
                                  + (f"{o.get('a')}  !=  {o.get('b')}" if o["status"] == "unequal"
                                     else f"raised {o.get('exc')}"),
                                  witness=o, witness_class=f"{o['status']} {label}")
            if good:
                d[1] += 1
    for (what, label), (n, good) in sorted(eper.items()):
        if n == good:
            rep.ok("C06.equal", f"{what} [{label}]", "", f"{n} variable cases", cases=n)
    check_routing(rep, model, "C06.original-first")
    rep.require_floor("C06.agree", 40, "instances")
    rep.require_floor("C06.equal", 100, "equalities x instances")
    rep.require_floor("C06.original-first", 2, "symbolic evaluation sites")
    rep.sample({"routes": routes})
    rep.assume("'same number up to rounding' is decided as 'same real function' (all routes equal the "
               "specification derivative in canonical form); rounding differences between routes are not analysed")
    return rep.finish(
        explanation="All 14 numeric routes (Partial, Derivative, Differential.component(...).at, component_at, "
                    "Differential.at(...).component, LocatedDifferential.component; early/late; variable as object or "
                    "name; after as_expression()) are interpreted abstractly on every class/composition/undefined-"
                    "child instance and region: they must all raise DomainError or all return the same real function. "
                    "Early and late as_expression() results and the delegating objects are compared with the "
                    "library's own == (interpreted). A CFG rule checks that every symbolic evaluation is dominated "
                    "by evaluating the original expression at the same point.",
        technique="static abstract interpretation (all routes cross-checked) + CFG dominance", exhaustive=True)
