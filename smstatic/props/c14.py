"""C14 -- an expression needs exactly the coordinates of the variables it mentions."""
from __future__ import annotations
import itertools
import math
from ..model import load_model
from ..harness import build, cref, run_paths, exc_name, exc_origin
from ..evalengine import pmap
from ..objengine import expression_pool, make_point_concrete
from ..derivengine import run_route, ROUTES
from ..values import SymNum, Obj
from .. import spec

LEGAL_NAMES = ["x", "_a", "x1", "9", "self", "cls", "kwargs", "args", "variable", "variable_name", "value",
               "point", "expression", "compute_early", "_private", "name", "other", "coordinates", "αβ",
               "\u00b5", "\uff58", "x\u00b2", "\ufb01", "\u00aa", "\u212b", "x\u0660"]


def source_literals(model) -> list:
    """Identifier-like string literals that occur in the package's own code (placeholders, sentinel
    values, dictionary keys ...): legal variable names that could collide with a magic value."""
    import ast
    import re
    out = []
    for mod in model.modules.values():
        docs = set()
        for node in ast.walk(mod.tree):
            if isinstance(node, ast.Expr) and isinstance(node.value, ast.Constant):
                docs.add(id(node.value))
        for node in ast.walk(mod.tree):
            if isinstance(node, ast.Constant) and isinstance(node.value, str) and id(node) not in docs:
                s = node.value
                if 0 < len(s) <= 40 and re.fullmatch(r"\w+", s) and s not in out:
                    out.append(s)
    return sorted(out)


def member_names(model) -> list:
    """Method and field names of the package's own classes (legal variable names that could shadow or be
    shadowed by a member when coordinates are stored on an object)."""
    import ast
    import re
    out = set()
    for ci in model.classes.values():
        for name, fi in ci.methods.items():
            out.add(name)
            for node in ast.walk(fi.node):
                if isinstance(node, ast.Attribute) and isinstance(node.value, ast.Name) and node.value.id in ("self", "other"):
                    out.add(node.attr)
    return sorted(s for s in out if re.fullmatch(r"\w+", s) and not (s.startswith("__") and s.endswith("__")))


def coord_case(args):
    kind, tree, coords, extra = args
    model = load_model()

    def thunk(it):
        if kind == "varset":
            e = build(it, tree, {})
            vs = it.getattr(e, "_variable_names")
            return sorted(vs) if isinstance(vs, (set, frozenset, list, tuple)) else repr(vs)
        if kind == "at":
            e = build(it, tree, {})
            return it.call(it.getattr(e, "at"), [make_point_concrete(it, coords)], {})
        if kind == "at-after-full":
            from ..interp import InterpRaise as _IR
            e = build(it, tree, {})
            for prev in extra:
                try:
                    it.call(it.getattr(e, "at"), [make_point_concrete(it, prev)], {})
                except _IR:
                    pass
            return it.call(it.getattr(e, "at"), [make_point_concrete(it, coords)], {})
        if kind == "at-number":
            e = build(it, tree, {})
            return it.call(it.getattr(e, "at"), [SymNum.of(1.5)], {})
        if kind == "number-after-reuse":
            u = build(it, tree, {})
            other = it.call(cref(model, "Variable"), ["other"], {})
            third = it.call(cref(model, "Variable"), ["third"], {})
            it.call(cref(model, "Add"), [u, other], {})
            it.call(cref(model, "Multiply"), [u, other, third], {})
            it.call(cref(model, "Minus"), [it.call(cref(model, "Negation"), [u], {}), third], {})
            it.binop("Mult", u, other)
            it.call(cref(model, "Derivative"), [u], {})
            return it.call(it.getattr(u, "at"), [SymNum.of(1.5)], {})
        if kind == "derivative-ctor":
            e = build(it, tree, {})
            it.call(cref(model, "Derivative"), [e], {})
            return "constructed"
        if kind == "route":
            route, var = extra
            e = build(it, tree, {})
            vobj = it.call(cref(model, "Variable"), [var], {})
            return run_route(it, route, e, vobj, var, make_point_concrete(it, coords), SymNum.of(1.5))
        if kind == "name":
            nm = extra
            v = it.call(cref(model, "Variable"), [nm], {})
            sq = it.binop("Mult", v, v)
            out = []
            out.append(it.call(it.getattr(v, "at"), [3], {}))
            out.append(it.call(it.getattr(sq, "at"), [SymNum.of(2.0)], {}))
            pt = it.call(cref(model, "Point"), [], {nm: 3})
            out.append(it.call(it.getattr(pt, "coordinate"), [nm], {}))
            out.append(it.call(it.getattr(pt, "coordinate"), [v], {}))
            out.append(it.call(it.getattr(sq, "at"), [pt], {}))
            out.append(it.call(it.getattr(it.call(cref(model, "Derivative"), [sq], {}), "at"), [3], {}))
            out.append(it.call(it.getattr(it.call(cref(model, "Partial"), [sq, nm], {}), "at"), [pt], {}))
            ld = it.call(cref(model, "LocatedDifferential"), [sq, pt], {})
            out.append(it.call(it.getattr(ld, "component"), [nm], {}))
            df = it.call(cref(model, "Differential"), [sq], {"compute_early": True})
            out.append(it.call(it.getattr(df, "component_at"), [v, pt], {}))
            out.append(it.to_repr(pt))
            return [repr(o) for o in out]
        raise ValueError(kind)
    outs = run_paths(model, thunk, max_paths=4, max_steps=3000000, generic_only=True)
    res = []
    for o in outs:
        if o["kind"] == "raise":
            res.append({"outcome": "raise", "exc": exc_name(o["exc"]), "origin": exc_origin(o["exc"])})
        elif o["kind"] != "return":
            res.append({"outcome": "unsupported", "reason": o["msg"]})
        else:
            v = o["value"]
            res.append({"outcome": "return", "value": v if isinstance(v, (list, str)) else repr(v),
                        "is_number": isinstance(v, (int, SymNum)) and not isinstance(v, bool)})
    return res


def check(rep):
    model = load_model()
    x, y, z = ("Variable", "x"), ("Variable", "y"), ("Variable", "z")
    trees = [
        ("Constant", 3), x, ("Add", [x, y]), ("Multiply", [("Constant", 0), y]), ("Multiply", [x, ("Constant", 0)]),
        ("Power", ("Constant", 1), y), ("Divide", ("Constant", 0), ("Add", [y, ("Constant", 5)])),
        ("Minus", x, x), ("Add", [x, ("Multiply", [y, z])]), ("NthPower", ("Sine", x), 2),
        ("Exponential", ("Negation", y), 2), ("Logarithm", ("Add", [("NthPower", x, 2), ("Constant", 1)]), 2),
        ("Multiply", [x, y, z]), ("Add", []), ("Multiply", []), ("Reciprocal", ("Add", [("NthPower", y, 2), ("Constant", 1)])),
        ("Add", [("Multiply", [x, y]), ("Logarithm", z, 2)]), ("Multiply", [("Sine", x), ("Reciprocal", y)]),
        ("Divide", ("Cosine", x), ("NthRoot", y, 2)),
    ]
    trees += [t for t in expression_pool(model, "quick") if t[0] in ("Minus", "Divide", "Add", "Multiply")][:10]
    cases = []
    values = {"x": 2.5, "y": 0.5, "z": 0, "long_name_2": 0.0, "extra1": 7, "extra2": -1}
    for t in trees:
        vs = spec.variables(t)
        cases.append(("varset", t, None, None, sorted(vs)))
        full = {v: values[v] for v in vs}
        # all variables supplied, with and without extra coordinates
        for extra in ({}, {"extra1": 7}, {"extra1": 7, "extra2": -1, "unused": 0}):
            cases.append(("at", t, {**full, **extra}, None, "no-CoordinateMissing"))
        # a supplied coordinate is supplied whatever its value: falsy, signed zero, infinite, not-a-number
        # (candidates for an "absent" sentinel)
        for special in (0, 0.0, -0.0, False, math.nan, -1, 1e-320):
            if vs:
                cases.append(("at", t, {**full, vs[0]: special, "extra1": special}, None, "never-CoordinateMissing"))
        # every proper subset of the variables: evaluation must not return a number
        for k in range(len(vs)):
            for sub in itertools.combinations(vs, k):
                cases.append(("at", t, {**{v: values[v] for v in sub}, "extra1": 7}, None, "not-a-number"))
        # ... also when the same object was evaluated before at full points (one succeeding, one failing)
        if len(vs) >= 2:
            fails = {v: (-1.0 if i == len(vs) - 1 else values[v]) for i, v in enumerate(vs)}
            for k in range(1, len(vs)):
                for sub in itertools.combinations(vs, k):
                    cases.append(("at-after-full", t, {v: values[v] for v in sub}, [full, fails, {**full, vs[-1]: 0}],
                                  "not-a-number"))
        cases.append(("at-number", t, None, None, "accept" if len(vs) <= 1 else "reject"))
        cases.append(("derivative-ctor", t, None, None, "accept" if len(vs) <= 1 else "reject"))
        if len(vs) <= 1:
            cases.append(("number-after-reuse", t, None, None, "accept"))
        # differentiation w.r.t. occurring and non-occurring variables; the differentiation variable is
        # not supplied when it does not occur
        for route in ("Partial.at", "Partial(early).at", "LocatedDifferential.component",
                      "Differential(early).at.component", "Differential.component_at"):
            for var in (vs[:1] + ["not_there"]):
                cases.append(("route", t, {**full, "extra1": 7}, (route, var), "no-CoordinateMissing"))
                # ... and on every derivative route an occurring variable without coordinate -- whether or not
                # it is the differentiation variable -- must not yield a number
                for missing in vs:
                    cases.append(("route", t, {**{v: values[v] for v in vs if v != missing}, "extra1": 7},
                                  (route, var), "not-a-number"))
    literals = [s for s in source_literals(model) if s not in LEGAL_NAMES]
    members = [s for s in member_names(model) if s not in LEGAL_NAMES and s not in literals]
    rep.extra["names_taken_from_class_members"] = len(members)
    literals = literals + members
    rep.extra["names_taken_from_string_literals_in_the_source"] = literals
    for nm in LEGAL_NAMES + literals:
        cases.append(("name", None, None, nm, "usable"))
    results = pmap(coord_case, [(k, t, c, e) for (k, t, c, e, _w) in cases], chunksize=4)
    per = {}
    for (kind, t, coords, extra, want), res in zip(cases, results):
        rule = {"varset": "C14.varsets", "at": "C14.coordinates", "at-after-full": "C14.coordinates", "number-after-reuse": "C14.arity", "at-number": "C14.arity", "derivative-ctor": "C14.arity",
                "route": "C14.coordinates", "name": "C14.names"}[kind]
        construct = {"varset": f"{t[0]}.__init__" if t else "", "at": "Expression.at",
                     "at-after-full": "Expression.at after evaluations at full points",
                     "number-after-reuse": "Expression.at(number) after the expression became an operand elsewhere", "at-number": "Expression.at(number)",
                     "derivative-ctor": "Derivative.__init__", "route": extra[0] if kind == "route" else "",
                     "name": "coordinate name"}[kind]
        d = per.setdefault((rule, construct), [0, 0])
        d[0] += 1
        desc = (spec.show(t) if t else f"name {extra!r}") + (f" at Point({coords})" if coords is not None else "")
        ok = True
        for r in res:
            if r["outcome"] == "unsupported":
                rep.unknown(rule, construct, "", f"{desc}: {r['reason']}")
                ok = False
                continue
            if kind == "varset":
                if r["outcome"] != "return" or r["value"] != want:
                    rep.violation(rule, construct, model.cls(t[0]).where,
                                  f"{desc}: recorded variable names {r.get('value') or r.get('exc')} but the expression "
                                  f"mentions {want}", witness_class=f"varset {t[0]}")
                    ok = False
            elif want in ("no-CoordinateMissing", "never-CoordinateMissing"):
                if r["outcome"] == "raise" and (r["exc"] == "CoordinateMissing" if want == "never-CoordinateMissing"
                                                else r["exc"] not in ("DomainError",)):
                    rep.violation(rule, construct, r.get("origin", ""),
                                  f"{desc}" + (f" via {extra[0]} w.r.t. {extra[1]}" if kind == "route" else "")
                                  + f": every occurring variable is supplied but {r['exc']} was raised",
                                  witness_class=f"{r['exc']} although supplied")
                    ok = False
            elif want == "not-a-number":
                if r["outcome"] == "return":
                    rep.violation(rule, construct, "",
                                  f"{desc}" + (f" via {extra[0]} w.r.t. {extra[1]}" if kind == "route" else "")
                                  + f": an occurring variable has no coordinate but the query returned {r['value']}",
                                  witness_class="number without coordinate")
                    ok = False
            elif want in ("accept", "reject"):
                got = "reject" if r["outcome"] == "raise" else "accept"
                if got != want or (want == "accept" and kind in ("at-number", "number-after-reuse") and not r.get("is_number")):
                    # a DomainError at the number is still an acceptance of the number
                    if want == "accept" and r["outcome"] == "raise" and r["exc"] == "DomainError":
                        continue
                    rep.violation(rule, construct, r.get("origin", ""),
                                  f"{desc} has {len(spec.variables(t))} variable(s): a bare number / Derivative should be "
                                  f"{want}ed but was {got}ed ({r.get('exc') or r.get('value')})",
                                  witness_class=f"{want} {len(spec.variables(t))} variables")
                    ok = False
            elif want == "usable":
                if r["outcome"] != "return":
                    rep.violation(rule, construct, r.get("origin", ""),
                                  f"the legal variable name {extra!r} cannot be used as a coordinate name: {r['exc']}",
                                  witness_class=f"name {extra}")
                    ok = False
                else:
                    vals = r["value"]
                    if vals[0] != "3" or vals[2] != "3" or vals[3] != "3":
                        rep.violation(rule, construct, "", f"name {extra!r}: coordinate lookups returned {vals[:4]}",
                                      witness_class=f"name-value {extra}")
                        ok = False
        if ok:
            d[1] += 1
    for (rule, construct), (n, good) in sorted(per.items()):
        if n == good:
            rep.ok(rule, construct, "", f"{n} expression/point combinations", cases=n)
    rep.sample({"names": LEGAL_NAMES})
    from ..structure import check_coordinate_missing_source
    check_coordinate_missing_source(rep, model, "C14.single-source")
    rep.require_floor("C14.coordinates", 4, "entry points")
    rep.require_floor("C14.varsets", 8, "constructors")
    rep.assume("coordinates whose value is None are outside 'finite points'")
    return rep.finish(
        explanation="Abstract interpretation of evaluation and of five representative derivative routes on expressions "
                    "whose variables are supplied in full (with and without extra coordinates, the differentiation "
                    "variable absent when it does not occur) -- never CoordinateMissing; on every proper subset of the "
                    "variables -- never a number; bare-number evaluation and Derivative(...) accepted exactly for <= 1 "
                    "variable; the recorded variable-name set of every built node equals the variables the tree "
                    "mentions; and a list of legal names that collide with parameter names of the library's own "
                    "functions ('self', 'kwargs', 'variable', ...) used as coordinate names through every entry point.",
        technique="static abstract interpretation over coordinate subsets and names",
        exhaustive=False)
