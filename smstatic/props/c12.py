"""C12 -- equality is structural, an equivalence, and consistent with hashing."""
from __future__ import annotations
from ..model import load_model
from ..harness import build, cref, run_paths, exc_name
from ..evalengine import pmap
from ..objengine import expression_pool, POINTS, tree_equal, make_point_concrete
from ..values import HashVal, SymNum
from .. import spec

FOREIGN = [3, 2.5, "x", None, (1, 2), [1]]


def mk(it, item):
    kind, payload = item
    model = it.model
    if kind == "expr":
        return build(it, payload, {})
    if kind == "point":
        return make_point_concrete(it, payload)
    cls, tree, extra, early = payload
    e = build(it, tree, {})
    kw = {"compute_early": True} if early else {}
    if cls == "Partial":
        return it.call(cref(model, cls), [e, extra], kw)
    if cls == "Partial(Variable object)":
        return it.call(cref(model, "Partial"), [e, build(it, ("Variable", extra), {})], kw)
    if cls == "LocatedDifferential":
        if early:      # the object handed out by Differential(e, compute_early=True).at(p)
            d = it.call(cref(model, "Differential"), [e], {"compute_early": True})
            return it.call(it.getattr(d, "at"), [make_point_concrete(it, extra)], {})
        return it.call(cref(model, cls), [e, make_point_concrete(it, extra)], {})
    return it.call(cref(model, cls), [e], kw)


def spec_equal(a, b) -> bool:
    if a[0] != b[0]:
        return False
    if a[0] == "expr":
        return tree_equal(a[1], b[1])
    if a[0] == "point":
        return a[1] == b[1]
    (c1, t1, x1, _e1), (c2, t2, x2, _e2) = a[1], b[1]
    return c1.split("(")[0] == c2.split("(")[0] and tree_equal(t1, t2) and x1 == x2


def row_case(args):
    """Worker: compare items[i] with every item j >= i (and foreign objects)."""
    i, items = args
    model = load_model()
    a_item = items[i]

    def thunk(it):
        a = mk(it, a_item)
        rows = []
        ha = it.call_builtin("hash", [a], {})
        for j in range(i, len(items)):
            b = mk(it, items[j])
            eq1 = it.truth(it.compare("==", a, b))
            eq2 = it.truth(it.compare("==", b, a))
            ne = it.truth(it.compare("!=", a, b))
            hb = it.call_builtin("hash", [b], {})
            rows.append((j, eq1, eq2, ne, ha == hb))
        foreign = []
        for f in FOREIGN:
            fv = SymNum.of(f) if isinstance(f, float) else f
            foreign.append((repr(f), it.truth(it.compare("==", a, fv)), it.truth(it.compare("!=", a, fv)),
                            it.truth(it.compare("==", fv, a))))
        # look-alikes: objects of a caller's own class that merely has the same NAME as a's class
        # (bare, e.g. the standard library's ast.Add(), or carrying the same fields)
        from ..interp import InterpRaise
        from ..objengine import impostor
        for what, attrs in (("bare", {}), ("with the same fields", dict(a.attrs))):
            imp = impostor(it, a.cls.name, attrs)
            desc = f"<an object of a foreign class also named {a.cls.name}, {what}>"
            try:
                foreign.append((desc, it.truth(it.compare("==", a, imp)), it.truth(it.compare("!=", a, imp)),
                                it.truth(it.compare("==", imp, a))))
            except InterpRaise as r:
                foreign.append((desc + f" raised {exc_name(r.exc)}", True, False, True))
        # a used copy (evaluated, differentiated, simplified) must stay equal with an equal hash
        used = None
        if a_item[0] == "expr":
            from ..interp import InterpRaise
            u = mk(it, a_item)
            pt = make_point_concrete(it, {"x": 2.5, "y": 0.5, "long_name_2": 3})
            for action in (lambda: it.call(it.getattr(u, "at"), [pt], {}),
                           lambda: it.call(it.getattr(u, "_numeric_partials"), [pt], {}),
                           lambda: it.call(it.getattr(u, "_normalize"), [], {})):
                try:
                    action()
                except InterpRaise:
                    pass
            used = (it.truth(it.compare("==", a, u)), it.truth(it.compare("==", u, a)),
                    it.call_builtin("hash", [u], {}) == ha)
        return rows, foreign, used
    outs = run_paths(model, thunk, max_paths=2, max_steps=8000000, generic_only=True)
    o = outs[0]
    if o["kind"] == "raise":
        return {"status": "raised", "exc": exc_name(o["exc"]), "origin": getattr(o["exc"], "origin", "") or
                (o["exc"].attrs.get("__origin__", "") if hasattr(o["exc"], "attrs") else "")}
    if o["kind"] != "return":
        return {"status": "unsupported", "reason": o["msg"]}
    rows, foreign, used = o["value"]
    return {"status": "ok", "rows": rows, "foreign": foreign, "used": used}


def describe(item) -> str:
    kind, p = item
    if kind == "expr":
        return spec.show(p)
    if kind == "point":
        return f"Point({p})"
    return f"{p[0]}({spec.show(p[1])}{', ' + repr(p[2]) if p[2] is not None else ''}{', early' if p[3] else ''})"


def kind_of(item) -> str:
    if item[0] == "expr":
        return item[1][0]
    if item[0] == "point":
        return "Point"
    return item[1][0]


def mutate_once(t, rng):
    """a copy of the tree that differs in exactly one place"""
    k = t[0]
    if k == "Variable":
        return ("Variable", t[1] + "_")
    if k == "Constant":
        return ("Constant", t[1] + 1)
    kids = spec.children(t)
    choice = rng.random()
    if k in ("NthPower", "NthRoot") and choice < 0.3:
        return (k, t[1], t[2] + 1)
    if k in ("Exponential", "Logarithm") and choice < 0.3:
        return (k, t[1], t[2] * 2 + 1)
    if k in spec.NARY:
        if not kids or choice < 0.25:
            return (k, list(kids) + [("Constant", 7)])
        if len(kids) >= 2 and choice < 0.5 and kids[0] != kids[-1]:
            return (k, [kids[-1]] + list(kids[1:-1]) + [kids[0]])
        i = rng.randrange(len(kids))
        return (k, [mutate_once(c, rng) if j == i else c for j, c in enumerate(kids)])
    if k in spec.BINARY:
        if choice < 0.3 and kids[0] != kids[1]:
            return (k, kids[1], kids[0])
        if choice < 0.65:
            return (k, mutate_once(kids[0], rng), kids[1])
        return (k, kids[0], mutate_once(kids[1], rng))
    return (k, mutate_once(kids[0], rng)) + tuple(t[2:])


def check(rep):
    model = load_model()
    pool = expression_pool(model, rep.tier)
    x, y = ("Variable", "x"), ("Variable", "y")
    t1 = ("Multiply", [x, y])
    t2 = ("Multiply", [y, x])
    if rep.tier != "quick":
        # random trees and one-point mutations of each (a parameter, a leaf, the argument order, the arity)
        from ..simpengine import random_trees
        import random as _random
        rng = _random.Random(rep.seed + 99)
        extra = []
        for (t, _l) in random_trees(rep.seed, 40, 14, names=("x", "y")):
            extra.append(t)
            extra.append(mutate_once(t, rng))
        pool = pool + extra
    items = [("expr", t) for t in pool] + [("point", p) for p in POINTS]
    for t in (t1, t2, x):
        for early in (False, True):
            items.append(("deriv", ("Differential", t, None, early)))
            items.append(("deriv", ("Partial", t, "x", early)))
            items.append(("deriv", ("Partial", t, "y", early)))
            items.append(("deriv", ("Partial(Variable object)", t, "x", early)))
            # variables that do not occur in the expression are still part of the object's identity
            items.append(("deriv", ("Partial", t, "absent_1", early)))
            items.append(("deriv", ("Partial", t, "absent_2", early)))
            items.append(("deriv", ("Partial(Variable object)", t, "absent_2", early)))
        items.append(("deriv", ("LocatedDifferential", t, {"x": 1, "y": 2}, False)))
        items.append(("deriv", ("LocatedDifferential", t, {"y": 2, "x": 1}, False)))
        items.append(("deriv", ("LocatedDifferential", t, {"x": 1, "y": 3}, False)))
    for t in (("Logarithm", x, 2), ("NthRoot", x, 3), ("Logarithm", x, 0.5), ("Divide", ("Constant", 1), x)):
        for pt in ({"x": 3}, {"x": 0.1}):
            items.append(("deriv", ("LocatedDifferential", t, pt, False)))
            items.append(("deriv", ("LocatedDifferential", t, pt, True)))
    for early in (False, True):
        items.append(("deriv", ("Derivative", x, None, early)))
        items.append(("deriv", ("Derivative", ("Sine", x), None, early)))
    results = pmap(row_case, [(i, items) for i in range(len(items))], chunksize=2)
    pairs = 0
    bad_kinds = set()
    for i, r in enumerate(results):
        a = items[i]
        construct = f"{kind_of(a)}.__eq__"
        if r["status"] == "unsupported":
            rep.unknown("C12.eq", construct, "", r["reason"])
            bad_kinds.add(kind_of(a))
            continue
        if r["status"] == "raised":
            rep.violation("C12.eq", construct, r.get("origin", ""),
                          f"comparing/hashing {describe(a)} raised {r['exc']}", witness_class=f"raised {r['exc']}")
            bad_kinds.add(kind_of(a))
            continue
        for (j, eq1, eq2, ne, same_hash) in r["rows"]:
            b = items[j]
            pairs += 1
            want = spec_equal(a, b)
            pair = f"{describe(a)}  vs  {describe(b)}"
            if eq1 != want or eq2 != want:
                rep.violation("C12.eq", construct, "",
                              f"{pair}: == gives {eq1}/{eq2} (both orders) but structural equality is {want}",
                              witness_class=f"{'unequal-reported-equal' if not want else 'equal-reported-unequal'} "
                                            f"{kind_of(a)}/{kind_of(b)}")
                bad_kinds.add(kind_of(a))
            elif ne != (not want):
                rep.violation("C12.ne", construct, "", f"{pair}: != gives {ne} while == gives {eq1}",
                              witness_class=f"ne-inconsistent {kind_of(a)}")
                bad_kinds.add(kind_of(a))
            if want and not same_hash:
                rep.violation("C12.hash", f"{kind_of(a)}.__hash__", "",
                              f"{pair}: equal objects with different hashes", witness_class=f"hash {kind_of(a)}/{kind_of(b)}")
                bad_kinds.add(kind_of(a))
        if r.get("used") is not None and not all(r["used"]):
            rep.violation("C12.history", f"{kind_of(a)}.__eq__/__hash__", "",
                          f"{describe(a)}: a copy that was evaluated, differentiated and simplified no longer compares "
                          f"equal / hashes equal to a fresh copy (==, reflected ==, same hash) = {r['used']}",
                          witness_class=f"used-copy {kind_of(a)}")
            bad_kinds.add(kind_of(a))
        for (f, eq, ne, req) in r["foreign"]:
            pairs += 1
            if " raised " in f:
                rep.violation("C12.foreign", construct, "",
                              f"{describe(a)} compared with {f.replace(' raised ', ': the comparison raised ')} "
                              f"(equality must never raise on foreign objects)", witness_class=f"foreign {kind_of(a)}")
                bad_kinds.add(kind_of(a))
            elif eq or req or not ne:
                rep.violation("C12.foreign", construct, "",
                              f"{describe(a)} compared with the foreign object {f}: == {eq}, reflected == {req}, != {ne}",
                              witness_class=f"foreign {kind_of(a)}")
                bad_kinds.add(kind_of(a))
    kinds = sorted({kind_of(i) for i in items})
    for k in kinds:
        if k not in bad_kinds:
            n = sum(1 for i in items if kind_of(i) == k)
            rep.ok("C12.eq", f"{k}.__eq__/__hash__", model.classes[k].where if k in model.classes else "",
                   f"{n} objects of this kind compared with all {len(items)} pool objects and {len(FOREIGN)} foreign "
                   f"objects: == is the structural equality, symmetric, != its negation, equal => equal hash",
                   cases=n * len(items))
    from ..structure import check_field_agreement, check_hash_subset_of_eq, check_no_value_identity
    check_field_agreement(rep, model, "C12.fields", ["__eq__"], "equality", must_cover=True)
    check_hash_subset_of_eq(rep, model, "C12.hash-fields")
    check_no_value_identity(rep, model, "C12.value-identity")
    rep.extra["pairs_compared"] = pairs
    rep.sample({"pool": [describe(i) for i in items[:8]]})
    rep.require_floor("C12.eq", 15, "object kinds")
    rep.assume("transitivity follows from == coinciding with the structural equality of the specification "
               "(an equivalence) on every compared pair; NaN parameters are excluded (finite numeric content)")
    return rep.finish(
        explanation="==, != and hash() are interpreted abstractly from source on all ordered pairs of a pool of "
                    "expressions (all constructors; pairs differing in exactly one parameter, leaf, argument position "
                    "or arity; int/float spellings), points (any coordinate order) and derivative objects (early and "
                    "late), and against foreign objects. The result must equal the checker's own structural equality, "
                    "be symmetric, never raise, != must negate ==, and equal objects must have equal abstract hashes "
                    "(Python's numeric hash contract for 2 == 2.0).",
        technique="static abstract interpretation of __eq__/__hash__ over an object pool",
        exhaustive=False)
