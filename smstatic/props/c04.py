"""C04 -- reverse-mode gradient equals the true partials for every variable at once."""
from __future__ import annotations
from ..derivcommon import run_derivative_property

ROUTES = ["LocatedDifferential.component", "Differential.at.component",
          "at(previous point);LocatedDifferential.component"]


def check(rep):
    run_derivative_property(rep, "C04", routes=ROUTES, expr_routes=[], judge_mode="value", explanation="")
    rep.require_floor("C04.value", 30, "class/route combinations")
    return rep.finish(
        explanation="Abstract interpretation of LocatedDifferential(e, p).component(v) and Differential(e)"
                    ".at(p).component(v) (reverse accumulation through _compute_numeric_partials and the "
                    "accumulator) from source, on every class, on repeated variables and on DAGs that share a "
                    "sub-expression object, for every variable (occurring or not) and every sign region; the "
                    "term must have the canonical form of the specification derivative.",
        technique="static abstract interpretation + canonical-form algebra", exhaustive=True)
