"""C02 -- DomainError exactly outside the strict domain.

Decided clauses (see DESIGN.md section 4, C02):
  C02.node-outcome / C02.no-other-source: abstract interpretation of Expression.at on every
      concrete class (children = variables) and on every parent class with a possibly
      undefined child in every argument position, over all region valuations: the outcome
      (DomainError / real number) must be the documented one.
  C02.eager: in every _evaluate with children, all non-memo paths evaluate every child
      unconditionally before the node decides anything (CFG must-pass-through).
"""
from __future__ import annotations
from ..model import load_model
from ..harness import partition, valuations
from .. import spec
from ..evalengine import (depth1_instances, depth2_instances, constant_child_instances, inspected_child_instances,
                          wide_nary_instances, eval_case, pmap, param_class,
                          region_class)
from ..structure import check_eager_evaluate


def judge(rep, tree, label, val, results, prop="C02"):
    k = tree[0]
    for r in results:
        st = r["status"]
        if st == "skip":
            rep.count("cases_skipped_sign_undetermined")
            continue
        rep.count("paths_interpreted")
        if "<" in label:
            culprit = r.get("expected", "")
            culprit = culprit.split("(")[1].split(":")[0] if "(" in culprit else k
            construct = f"{culprit} inside {label}"
            wc = st
        else:
            construct = f"{k}.at"
            wc = f"{st} {param_class(tree)} [{region_class(val)}]"
        if st == "unsupported":
            rep.unknown("C02.node-outcome", construct, "", f"interpreter: {r['reason']} on {r['tree']}")
            continue
        if st in ("ok", "value-differs", "value-unknown"):
            continue   # value identity is C01's business
        msg = (f"{r['tree']} at {{{r['val']}}}: expected {r.get('expected')}, got "
               f"{r.get('exc') or r.get('got')}" + (f" raised at {r['origin']}" if r.get("origin") else ""))
        if r["imprecise"]:
            rep.unknown("C02.node-outcome", construct, r.get("origin", ""),
                        "outcome differs only on a path the region domain could not decide: " + msg)
            continue
        rule = {"missing-raise": "C02.node-outcome", "spurious-raise": "C02.no-other-source",
                "wrong-exception": "C02.no-other-source", "complex": "C02.no-other-source",
                "not-a-number": "C02.no-other-source"}[st]
        rep.violation(rule, construct, r.get("origin", ""), msg, witness=r, witness_class=wc)


def check(rep):
    model = load_model()
    tier = rep.tier
    atoms = partition(model, tier)
    inst1, unknown_classes = depth1_instances(model, tier)
    inst2 = depth2_instances(model, tier)
    coarse = partition(model, "quick")
    cases = []
    for tree, label in inst1 + constant_child_instances(model, tier):
        names = spec.variables(tree)
        use = atoms if len(names) <= 2 else coarse
        for val in valuations(names, use):
            cases.append((tree, label, val))
    from ..simpengine import SIGN_REGIONS
    for tree, label in inspected_child_instances(model, tier) + wide_nary_instances(model, tier):
        names = spec.variables(tree)
        for val in valuations(names, coarse if len(names) <= 2 else SIGN_REGIONS):
            cases.append((tree, label, val))
    for tree, label in inst2:
        names = spec.variables(tree)
        use = coarse if (tier == "quick" or len(names) > 2) else atoms
        for val in valuations(names, use):
            cases.append((tree, label, val))
    cases = [(t, l, v, "at") for (t, l, v) in cases]
    # the same expression object evaluated earlier at other points (C02 must hold whatever came before)
    for tree, label in inst1 + inst2:
        names = spec.variables(tree)
        if names and len(names) <= 2:
            for val in valuations(names, coarse):
                cases.append((tree, label + " after other evaluations", val, "at-after-other"))
    for tree, label in inst1 + constant_child_instances(model, tier):
        names = spec.variables(tree)
        if len(names) == 1:
            for val in valuations(names, atoms):
                cases.append((tree, label + " (bare number)", val, "number"))
    results = pmap(eval_case, [(t, v, api) for (t, l, v, api) in cases])
    per_class = {}
    for (tree, label, val, _api), res in zip(cases, results):
        before = len(rep.violations) + len(rep.inconclusive)
        judge(rep, tree, label, val, res)
        ok = (len(rep.violations) + len(rep.inconclusive)) == before
        d = per_class.setdefault(label, [0, 0])
        d[0] += 1
        d[1] += 1 if ok else 0
    for label, (n, good) in sorted(per_class.items()):
        if n == good:
            cname = label.split("<")[0].split("(")[0].split("[")[0]
            rep.ok("C02.node-outcome", label, model.cls(cname).where if cname in model.classes else "",
                   f"{n} region/parameter cases: outcome = documented domain", cases=n)
    for i in (0, len(cases) // 3, 2 * len(cases) // 3, len(cases) - 1):
        t, l, v, _a = cases[i]
        rep.sample({"instance": spec.show(t), "regions": region_class(v),
                    "outcomes": [r.get("exc") or r.get("status") for r in results[i]]})
    for k in unknown_classes:
        rep.assume(f"class {k} has no row in the specification table and is not judged")
    check_eager_evaluate(rep, model, "C02.eager")
    rep.require_floor("C02.node-outcome", 13, "class instances")
    rep.require_floor("C02.eager", 3, "_evaluate drivers")
    rep.extra["region_atoms"] = [repr(a) for a in atoms]
    rep.extra["instances"] = len(inst1) + len(inst2)
    rep.assume("floating-point overflow/underflow is outside the property and not analysed",
               "regions are the atoms of the partition induced by every numeric literal the package "
               "compares against; guards are region-aligned, so branch decisions are exact")
    return rep.finish(
        explanation="Abstract interpretation (term x interval-region domain) of Expression.at over "
                    "every concrete class and every parent/undefined-child combination, for all "
                    "region valuations and parameter classes, compared with the documented domain "
                    "table; plus a CFG must-pass-through rule that every _evaluate evaluates all "
                    "children eagerly.",
        technique="static abstract interpretation of the source over sign/magnitude regions + CFG dominance",
        exhaustive=True)
