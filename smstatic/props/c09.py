"""C09 -- answers do not depend on what was computed before."""
from __future__ import annotations
import random
from ..model import load_model
from ..evalengine import pmap
from ..histengine import all_actions, run_history, sample_histories, pool_trees, POINTS
from ..structure import check_reset_dominance, check_reset_complete, check_no_global_state, check_no_unreset_state


def targeted_histories(actions):
    """stale-memo shapes: evaluate one (possibly sharing) expression at one point -- including a
    failing point -- then query another at a different point"""
    out = []
    exprs = list(pool_trees())
    first_kinds = ("at", "partial", "located", "partial-early", "normalize", "as_expression")
    for e in exprs:
        for p in POINTS:
            for fk in first_kinds:
                a = next((x for x in actions if x[0] == fk and x[1] == e and (x[2] == p or x[2] is None)), None)
                if a is None:
                    continue
                for e2 in exprs:
                    for q in POINTS:
                        if q == p:
                            continue
                        for k2 in ("at", "partial", "located", "partial-early", "differential-early"):
                            f = next((x for x in actions if x[0] == k2 and x[1] == e2 and x[2] == q), None)
                            if f is not None:
                                out.append(([a], f))
    return out


SYMBOLIC = ("as_expression", "as_expression-reverse", "normalize")


def symbolic_pairs(actions):
    """one simplification after another (on the same or on a sharing expression): flags left on
    shared sub-expression objects by the first must not change what the second returns"""
    sym = [a for a in actions if a[0] in SYMBOLIC]
    trees = pool_trees()

    def compound_ids(t, acc):
        from .. import spec
        if t[0] not in spec.LEAF:
            acc.add(id(t))
            for c in spec.children(t):
                compound_ids(c, acc)
        return acc
    ids = {k: compound_ids(t, set()) for k, t in trees.items()}
    related = lambda p, q: p == q or bool(ids[p] & ids[q])      # the same expression, or one sharing a compound node
    return [([a], f) for a in sym for f in sym if related(a[1], f[1])] + \
           [([a, a], f) for a in sym for f in sym if a[1] != f[1] and related(a[1], f[1])]


def repeated_queries(actions):
    """the very same query repeated on the kept objects (e.g. a memo recorded by a call that failed)"""
    out = []
    for a in actions:
        if a[2] is not None and a[0] in ("at", "partial", "partial-early", "differential-early", "located"):
            out.append(([a], a))
        if a[0] in ("partial", "partial-early") and a[2] is not None:
            # after as_expression() on the same kept object
            sw = ("as_expression", a[1], None, a[3])
            out.append(([sw, a], a))
    return out


def same_answer(a, b) -> bool:
    """Identical outcome; numbers are compared up to rounding (1e-9 relative), because a late
    Partial legitimately switches to its symbolic path once as_expression() was called on it
    (C06 promises 'the same number up to rounding' for exactly that history) -- a stale memo
    yields the value at another point, far outside this tolerance."""
    if a == b:
        return True
    if a[0] == "value" and b[0] == "value":
        try:
            x, y = float(a[1]), float(b[1])
        except ValueError:
            return False
        return abs(x - y) <= 1e-9 * max(abs(x), abs(y)) + 1e-12
    return False


def check(rep):
    model = load_model()
    actions = all_actions()
    rng = random.Random(rep.seed * 7919 + 11)
    runs = []
    tgt = targeted_histories(actions)
    if rep.tier == "quick":
        tgt = rng.sample(tgt, min(len(tgt), 2500))
        per_final = (6, 4, 2)
    else:
        per_final = (30, 30, 12)
    runs += tgt
    runs += repeated_queries(actions)
    runs += symbolic_pairs(actions)
    for f in actions:
        for h in sample_histories(actions, rng, *per_final):
            runs.append((h, f))
    baselines = pmap(run_history, [([], f) for f in actions], chunksize=4)
    base = {}
    for f, b in zip(actions, baselines):
        base[f] = b
    results = pmap(run_history, runs, chunksize=8)
    per = {}
    for (h, f), r in zip(runs, results):
        key = f[0]
        d = per.setdefault(key, [0, 0])
        d[0] += 1
        b = base[f]
        if r["status"] != "ok" or b["status"] != "ok":
            rep.unknown("C09.history", f"{f[0]}", "", (r.get("reason") or b.get("reason") or "")[:200])
            continue
        rep.count("operations_interpreted", len(h) + 1)
        if not same_answer(r["result"], b["result"]):
            hk = " ; ".join(f"{a[0]}({a[1]}{', ' + a[2] if a[2] else ''}{', ' + a[3] if a[3] else ''})" for a in h)
            fk = f"{f[0]}({f[1]}{', ' + f[2] if f[2] else ''}{', ' + f[3] if f[3] else ''})"
            rep.violation("C09.history", f"{f[0]} after {h[-1][0]}", "",
                          f"after the history [{hk}] the operation {fk} gives {r['result']} but on a freshly built, "
                          f"never used pool it gives {b['result']}",
                          witness={"history": h, "final": f, "got": r["result"], "fresh": b["result"]},
                          witness_class=f"{r['result'][0]} vs {b['result'][0]}")
        else:
            d[1] += 1
    for k, (n, good) in sorted(per.items()):
        if n == good:
            rep.ok("C09.history", f"final operation {k}", "", f"{n} histories (length 1-5 over a pool of 5 expressions "
                   f"sharing sub-expression objects, 5 points incl. failing ones): same answer as on a fresh pool",
                   cases=n)
    check_reset_dominance(rep, model, "C09.reset-dominance")
    check_reset_complete(rep, model, "C09.reset-complete")
    check_no_global_state(rep, model, "C09.no-global-state")
    check_no_unreset_state(rep, model, "C09.no-unreset-state")
    rep.extra["histories"] = len(runs)
    rep.sample({"history": runs[7][0], "final": runs[7][1], "result": results[7].get("result")})
    rep.require_floor("C09.history", 8, "kinds of final operation")
    rep.require_floor("C09.reset-dominance", 4, "root traversal calls")
    rep.require_floor("C09.reset-complete", 6, "reset obligations")
    rep.assume("histories are sampled (VERIF_SEED) beyond the exhaustive stale-memo shapes; the structural rules "
               "(reset dominates every root traversal; reset clears every memo and recurses into every child; no "
               "module-level state) carry the claim to histories of any length",
               "the give-up exit of _fully_reduce (more than 1000 steps) marks a not fully reduced expression as "
               "reduced; a fresh copy of that result would be reduced further (not reachable below the C11 budget)")
    return rep.finish(
        explanation="(1) Histories of API operations (evaluation, late/early partials on kept objects, located and early "
                    "differentials, as_expression switching a late object to its symbolic path, normalisation, calls that "
                    "fail with DomainError or CoordinateMissing) are interpreted abstractly over a pool of expressions "
                    "that share sub-expression objects at concrete points; the final operation must give the "
                    "answer it gives on a fresh pool (numbers up to rounding: a late object may switch route). (2) CFG rules: every root traversal call is dominated by a cache "
                    "reset on the same receiver; every reset clears every memo written by _evaluate and recurses into "
                    "every child on all paths; no module keeps mutable state.",
        technique="static abstract interpretation of operation histories + CFG dominance / must-pass-through rules",
        exhaustive=False)
