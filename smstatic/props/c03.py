"""C03 -- forward-mode partials equal the true partial derivative (late Partial / Derivative)."""
from __future__ import annotations
from ..derivcommon import run_derivative_property

ROUTES = ["Partial.at", "Partial.at(name)", "Derivative.at", "Derivative.at(number)", "Partial.at(kept object)"]


def check(rep):
    run_derivative_property(
        rep, "C03", routes=ROUTES, expr_routes=[], judge_mode="value", explanation="")
    rep.require_floor("C03.value", 30, "class/route combinations")
    return rep.finish(
        explanation="Abstract interpretation of the late Partial/Derivative routes (forward mode) from source "
                    "on every concrete class (children = variables, all parameter classes), on chain/product "
                    "compositions and DAGs, for every variable (occurring or not, as object or name) and every "
                    "sign region of the domain; the resulting term must have the canonical form of the "
                    "specification derivative (calculus table applied to the specification reading).",
        technique="static abstract interpretation + canonical-form algebra", exhaustive=True)
