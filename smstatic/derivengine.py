"""Shared engine for C03..C07: abstractly interpret every public differentiation route on
an instance tree and compare outcomes with the specification derivative (spec.diff of the
specification reading, canonicalised in ALGEBRA)."""
from __future__ import annotations
import math

from .model import load_model, AnalysisError
from .harness import (build, make_point, exc_name, exc_origin, run_paths, describe_val, leaf_value, cref)
from .interp import Unsupported
from .values import SymNum, ComplexVal, Obj
from .regions import IV
from . import spec
from .algebra import compare_terms, Undefined, TooHard, has_head
from .evalengine import region_env
from .structure import class_fields

E = math.e

# route name -> (kind, early?)   kind in forward | reverse | symbolic
ROUTES = {
    "Partial.at":                 ("forward", False),
    "Partial.at(name)":           ("forward", False),
    "Partial(early).at":          ("symbolic", True),
    "Partial.as_expression;at":   ("symbolic", False),
    "Derivative.at":              ("forward", False),
    "Derivative.at(number)":      ("forward", False),
    "Derivative(early).at":       ("symbolic", True),
    "LocatedDifferential.component": ("reverse", False),
    "Differential.at.component":  ("reverse", False),
    "Differential(early).at.component": ("symbolic", True),
    "Differential.component_at":  ("forward", False),
    "Differential(early).component_at": ("symbolic", True),
    "Differential.component.at":  ("forward", False),
    "Differential(early).component.at": ("symbolic", True),
    # the same objects queried at one point after another (history inside the property's own check)
    "Partial.at(kept object)":    ("forward", False),
    "at(previous point);LocatedDifferential.component": ("reverse", False),
}
EXPR_ROUTES = ["Partial.as_expression", "Partial(early).as_expression", "Derivative.as_expression",
               "Derivative(early).as_expression", "Differential.component.as_expression",
               "Differential(early).component.as_expression"]


def _ctor(it, name, args, kwargs=None):
    return it.call(cref(it.model, name), args, kwargs or {})


def _m(it, obj, name, *args):
    return it.call(it.getattr(obj, name), list(args), {})


def run_route(it, route, e, var_obj, var_name, point, number):
    early = {"compute_early": True}
    if route == "Partial.at":
        return _m(it, _ctor(it, "Partial", [e, var_obj]), "at", point)
    if route == "Partial.at(name)":
        return _m(it, _ctor(it, "Partial", [e, var_name]), "at", point)
    if route == "Partial(early).at":
        return _m(it, _ctor(it, "Partial", [e, var_obj], early), "at", point)
    if route == "Partial.as_expression;at":
        p = _ctor(it, "Partial", [e, var_obj])
        _m(it, p, "as_expression")
        return _m(it, p, "at", point)
    if route == "Derivative.at":
        return _m(it, _ctor(it, "Derivative", [e]), "at", point)
    if route == "Derivative.at(number)":
        return _m(it, _ctor(it, "Derivative", [e]), "at", number)
    if route == "Derivative(early).at":
        return _m(it, _ctor(it, "Derivative", [e], early), "at", point)
    if route == "LocatedDifferential.component":
        return _m(it, _ctor(it, "LocatedDifferential", [e, point]), "component", var_obj)
    if route == "Differential.at.component":
        return _m(it, _m(it, _ctor(it, "Differential", [e]), "at", point), "component", var_name)
    if route == "Differential(early).at.component":
        return _m(it, _m(it, _ctor(it, "Differential", [e], early), "at", point), "component", var_obj)
    if route == "Differential.component_at":
        return _m(it, _ctor(it, "Differential", [e]), "component_at", var_obj, point)
    if route == "Differential(early).component_at":
        return _m(it, _ctor(it, "Differential", [e], early), "component_at", var_name, point)
    if route == "Differential.component.at":
        return _m(it, _m(it, _ctor(it, "Differential", [e]), "component", var_name), "at", point)
    if route == "Differential(early).component.at":
        return _m(it, _m(it, _ctor(it, "Differential", [e], early), "component", var_obj), "at", point)
    if route == "Partial.at(kept object)":
        return _m(it, _ctor(it, "Partial", [e, var_obj]), "at", point)
    if route == "at(previous point);LocatedDifferential.component":
        return _m(it, _ctor(it, "LocatedDifferential", [e, point]), "component", var_obj)
    if route == "Partial.as_expression":
        return _m(it, _ctor(it, "Partial", [e, var_obj]), "as_expression")
    if route == "Partial(early).as_expression":
        return _m(it, _ctor(it, "Partial", [e, var_name], early), "as_expression")
    if route == "Derivative.as_expression":
        return _m(it, _ctor(it, "Derivative", [e]), "as_expression")
    if route == "Derivative(early).as_expression":
        return _m(it, _ctor(it, "Derivative", [e], early), "as_expression")
    if route == "Differential.component.as_expression":
        return _m(it, _m(it, _ctor(it, "Differential", [e]), "component", var_obj), "as_expression")
    if route == "Differential(early).component.as_expression":
        return _m(it, _m(it, _ctor(it, "Differential", [e], early), "component", var_name), "as_expression")
    raise AnalysisError(f"unknown route {route}")


_FIELDS_CACHE = {}


def obj_to_tree(it, o, depth=0):
    """Read an expression object back into an instance tree through its structural fields
    (not through the repository's repr, which is itself under test)."""
    if depth > 60:
        raise Unsupported("expression too deep to read back")
    if not isinstance(o, Obj):
        raise Unsupported(f"not an expression object: {o!r}")
    model = it.model
    k = o.cls.name
    if k not in _FIELDS_CACHE:
        f = class_fields(model, o.cls)
        base_params = set(class_fields(model, model.cls("Expression")).params)
        _FIELDS_CACHE[k] = (list(f.child_single), list(f.child_list),
                            [p for p in f.params if p not in base_params])
    singles, lists, params = _FIELDS_CACHE[k]

    def num(v):
        if isinstance(v, SymNum):
            if v.conc is None:
                raise Unsupported("symbolic parameter")
            return v.conc
        return v
    if k not in spec.ALL_CLASSES:
        raise Unsupported(f"class {k} not in the specification table")
    if k == "Variable":
        return ("Variable", o.attrs[params[0]])
    if k == "Constant":
        v = o.attrs[params[0]]
        if isinstance(v, SymNum) and (v.conc is None or v.term[0] not in ("c", "e")):
            return ("ConstantSym", v.term, v.conc)
        return ("Constant", num(v))
    if k in spec.NARY:
        return (k, [obj_to_tree(it, c, depth + 1) for c in o.attrs[lists[0]]])
    if k in spec.BINARY:
        return (k, obj_to_tree(it, o.attrs[singles[0]], depth + 1), obj_to_tree(it, o.attrs[singles[1]], depth + 1))
    if k in spec.UNARY:
        return (k, obj_to_tree(it, o.attrs[singles[0]], depth + 1))
    return (k, obj_to_tree(it, o.attrs[singles[0]], depth + 1), num(o.attrs[params[0]]))


def obj_ids(it, o, depth=0):
    """Identity skeleton parallel to obj_to_tree: (oid, [children skeletons in spec.children order])."""
    if depth > 60 or not isinstance(o, Obj):
        return (0, [])
    k = o.cls.name
    if k not in _FIELDS_CACHE:
        obj_to_tree(it, o, depth)
    singles, lists, _params = _FIELDS_CACHE[k]
    kids = []
    if k in spec.NARY:
        kids = [obj_ids(it, c, depth + 1) for c in o.attrs[lists[0]]]
    elif k in spec.BINARY:
        kids = [obj_ids(it, o.attrs[singles[0]], depth + 1), obj_ids(it, o.attrs[singles[1]], depth + 1)]
    elif k in spec.UNARY or k in spec.PARAM:
        kids = [obj_ids(it, o.attrs[singles[0]], depth + 1)]
    return (o.oid, kids)


def well_formed(tree) -> str:
    """'' or a reason why the tree is not a well-formed expression."""
    k = tree[0]
    if k in ("NthPower", "NthRoot"):
        n = tree[2]
        if isinstance(n, bool) or not isinstance(n, int) or n < 1:
            return f"{k} with n={n!r}"
    if k == "Exponential" and not (float(tree[2]) > 0):
        return f"Exponential with base={tree[2]!r}"
    if k == "Logarithm" and (not (float(tree[2]) > 0) or float(tree[2]) == 1):
        return f"Logarithm with base={tree[2]!r}"
    if k == "ConstantSym":
        return ""
    for c in spec.children(tree):
        r = well_formed(c)
        if r:
            return r
    return ""


def value_term_ext(tree, leaf):
    if tree[0] == "ConstantSym":
        return tree[1]
    k = tree[0]
    if k in spec.LEAF:
        return spec.value_term(tree, leaf)
    # rebuild with recursion so ConstantSym inside is handled
    if k in spec.NARY:
        return (("add",) if k == "Add" else ("mul",)) + tuple(value_term_ext(c, leaf) for c in tree[1])
    # reuse spec by substituting children with placeholder holes is overkill; do it directly
    sub = [value_term_ext(c, leaf) for c in spec.children(tree)]
    proxy = spec.value_term((k,) + tuple(("Variable", f"__c{i}") for i in range(len(sub))) + tuple(tree[1 + len(sub):]),
                            lambda nm: sub[int(nm[3:])])
    return proxy


def has_sym_const(tree) -> bool:
    if tree[0] == "ConstantSym":
        return True
    return any(has_sym_const(c) for c in spec.children(tree))


def expected_partial(tree, val, var):
    """('undef', cls, why) | ('ok', term) | raises spec.Unknown"""
    r = spec.eval_iv(tree, val)
    if r[0] != "ok":
        return r
    leaf = spec.leaf_terms(val)
    # differentiate w.r.t. the hole, then substitute point regions
    t = spec.value_term(tree)          # holes for every variable
    d = spec.diff(t, var)
    return ("ok", _subst_points(d, val))


def _subst_points(t, val):
    if t[0] == "h":
        iv = val.get(t[1])
        if iv is not None and iv.is_point():
            return ("c", iv.lo)
        return t
    if t[0] in ("c", "e"):
        return t
    return (t[0],) + tuple(_subst_points(x, val) if isinstance(x, tuple) else x for x in t[1:])


EARLY = {"compute_early": True}
# batched routes: the derivative object is built once and queried at every valuation
STAGES = {
    "Partial(early).at": (lambda it, e, vo, vn: _ctor(it, "Partial", [e, vo], EARLY),
                          lambda it, o, pt, vo, vn: _m(it, o, "at", pt)),
    "Partial.as_expression;at": (lambda it, e, vo, vn: _as_expr_first(it, _ctor(it, "Partial", [e, vo])),
                                 lambda it, o, pt, vo, vn: _m(it, o, "at", pt)),
    "Derivative(early).at": (lambda it, e, vo, vn: _ctor(it, "Derivative", [e], EARLY),
                             lambda it, o, pt, vo, vn: _m(it, o, "at", pt)),
    "Differential(early).at.component": (lambda it, e, vo, vn: _ctor(it, "Differential", [e], EARLY),
                                         lambda it, o, pt, vo, vn: _m(it, _m(it, o, "at", pt), "component", vo)),
    "Differential(early).component_at": (lambda it, e, vo, vn: _ctor(it, "Differential", [e], EARLY),
                                         lambda it, o, pt, vo, vn: _m(it, o, "component_at", vn, pt)),
    "Differential(early).component.at": (lambda it, e, vo, vn: _ctor(it, "Differential", [e], EARLY),
                                         lambda it, o, pt, vo, vn: _m(it, _m(it, o, "component", vo), "at", pt)),
}


def _located_after_at(it, e, pt, vo, vn):
    from .interp import InterpRaise as _IR
    prev = getattr(it, "_previous_point", None)
    if prev is not None:
        try:
            _m(it, e, "at", prev)
        except _IR:
            pass
    it._previous_point = pt
    return _m(it, _ctor(it, "LocatedDifferential", [e, pt]), "component", vo)


def _kept_partial_query(it, pair, pt, vo, vn):
    """P.at(p); e.at(<the previous point>); P.at(p) again -- the last answer is judged"""
    from .interp import InterpRaise as _IR
    e, p = pair
    prev = getattr(it, "_previous_point_kept", None)
    try:
        _m(it, p, "at", pt)
    except _IR:
        pass
    if prev is not None:
        try:
            _m(it, e, "at", prev)
        except _IR:
            pass
    it._previous_point_kept = pt
    return _m(it, p, "at", pt)


STAGES["Partial.at(kept object)"] = (lambda it, e, vo, vn: (e, _ctor(it, "Partial", [e, vo])), _kept_partial_query)
STAGES["at(previous point);LocatedDifferential.component"] = (lambda it, e, vo, vn: e, _located_after_at)


def _as_expr_first(it, p):
    _m(it, p, "as_expression")
    return p


def _judge_numeric(o, exp, need_value, signs, renv):
    r = {"imprecise": o["imprecise"]}
    if o["kind"] in ("unsupported", "limit"):
        r.update(status="unsupported", reason=o["msg"])
    elif o["kind"] == "raise" and exc_name(o["exc"]) == "OverflowError":
        r.update(status="ok", note="overflow: excluded by the property")
    elif o["kind"] == "return" and isinstance(o["value"], SymNum) and isinstance(o["value"].conc, float) \
            and (math.isinf(o["value"].conc) or math.isnan(o["value"].conc)):
        r.update(status="ok", note="overflow to inf/nan: excluded by the property")
    elif o["kind"] == "raise":
        nm = exc_name(o["exc"])
        r.update(got="raise", exc=nm, origin=exc_origin(o["exc"]))
        if exp[0] != "ok":
            r["status"] = "ok" if nm == "DomainError" else "wrong-exception"
        else:
            r["status"] = "spurious-raise"
    else:
        v = o["value"]
        r["got"] = repr(v)
        if exp[0] != "ok":
            r["status"] = "missing-raise"
        elif isinstance(v, ComplexVal) or isinstance(v, bool) or not isinstance(v, (int, SymNum)):
            r["status"] = "not-a-real"
        elif not need_value:
            r["status"] = "ok"
        else:
            verdict, wit = compare_terms(SymNum.of(v).term, exp[1], signs, region_env=renv)
            if verdict == "equal":
                r["status"] = "ok"
            elif verdict == "differ" or has_head(SymNum.of(v).term, "round"):
                r.update(status="value-differs", witness=wit if verdict == "differ" else
                         {"at": "any non-integer point", "values": [0.0, 0.0]})
                if has_head(SymNum.of(v).term, "round"):
                    r["imprecise"] = False
            else:
                r.update(status="value-unknown", reason=f"{verdict}: {wit}")
    return r


def _judge_expr(o, exp, val, names, signs, renv):
    r = {"imprecise": o["imprecise"], "warnings": [w[1] for w in o.get("warnings", [])]}
    if o["kind"] in ("unsupported", "limit"):
        r.update(status="unsupported", reason=o["msg"])
        return r
    if o["kind"] == "raise":
        r.update(status="raised", exc=exc_name(o["exc"]), origin=exc_origin(o["exc"]))
        return r
    dtree, text = o["value"]
    r["expr"] = spec.show(dtree) if not has_sym_const(dtree) else text
    r["repr"] = text
    wf = well_formed(dtree)
    extra = [v for v in spec.variables(dtree) if v not in names]
    if wf:
        r.update(status="ill-formed", reason=wf)
    elif extra:
        r.update(status="new-variable", reason=",".join(extra))
    elif exp[0] != "ok":
        r["status"] = "ok"        # nothing is promised where the original is undefined
    else:
        try:
            dv = spec.eval_iv(_strip_sym(dtree), val)
        except spec.Unknown:
            dv = ("ok", None)
        if dv[0] != "ok":
            r.update(status="derivative-undefined", reason=f"{dv[1]}: {dv[2]}")
        else:
            verdict, wit = compare_terms(value_term_ext(dtree, spec.leaf_terms(val)), exp[1],
                                         signs, region_env=renv)
            if verdict == "equal":
                r["status"] = "ok"
            elif verdict == "differ":
                r.update(status="value-differs", witness=wit)
            elif verdict == "undef1":
                r.update(status="derivative-undefined", reason=str(wit))
            else:
                r.update(status="value-unknown", reason=f"{verdict}: {wit}")
    return r


def deriv_group(args):
    """Worker.  args = (tree, var, vals, routes, expr_routes, need_value)
    -> list (aligned with vals) of dicts of plain data."""
    from .interp_ops import Interpreter
    from .interp import InterpRaise, StepLimit
    tree, var, vals, routes, expr_routes, need_value, tier = args
    generic_only = tier == "quick"
    model = load_model()
    names = spec.variables(tree)
    single = names[0] if len(names) == 1 else None
    outs = []
    exps = []
    for val in vals:
        out = {"tree": spec.show(tree), "val": describe_val(val), "var": var, "routes": {}, "exprs": {}}
        try:
            exp = expected_partial(tree, val, var)
            out["expected"] = "DomainError" if exp[0] != "ok" else "value"
            if exp[0] != "ok":
                out["undef"] = f"{exp[1]}: {exp[2]}"
        except spec.Unknown as e:
            out["skip"] = str(e)
            exp = None
        outs.append(out)
        exps.append(exp)

    def applicable(route):
        if route.startswith("Derivative"):
            if len(names) > 1:
                return False
            if single is not None and var != single:
                return False
            if route == "Derivative.at(number)" and single is None:
                return False
        return True

    def mk(it, val):
        e = build(it, tree, {})
        vobj = it.call(cref(model, "Variable"), [var], {})
        pt = make_point(it, val) if val is not None else None
        number = leaf_value(single, val[single]) if (val is not None and single and single in val) else None
        return e, vobj, pt, number

    def sv(val):
        return (spec.signs_from_valuation({k: iv for k, iv in val.items() if not iv.is_point()}),
                region_env(val))

    for route in routes:
        if not applicable(route):
            continue
        done = False
        if route in STAGES and len(vals) > 1:
            s1, s2 = STAGES[route]
            it = Interpreter(model, max_steps=3000000)
            it.generic_only = True
            it.reset_run([])
            batch = {}
            try:
                try:
                    e, vobj, _pt, _n = mk(it, None)
                    obj = s1(it, e, vobj, var)
                    stage1 = None
                except InterpRaise as r:
                    stage1 = {"kind": "raise", "exc": r.exc}
                for idx, val in enumerate(vals):
                    if exps[idx] is None:
                        continue
                    if stage1 is not None:
                        o = dict(stage1)
                    else:
                        try:
                            o = {"kind": "return", "value": s2(it, obj, make_point(it, val), vobj, var)}
                        except InterpRaise as r:
                            o = {"kind": "raise", "exc": r.exc}
                    o["imprecise"] = False
                    batch[idx] = o
                if it.pos == 0 and (generic_only or it.generic_skipped == 0):
                    for idx, o in batch.items():
                        signs, renv = sv(vals[idx])
                        outs[idx]["routes"][route] = [_judge_numeric(o, exps[idx], need_value, signs, renv)]
                    done = True
            except (Unsupported, StepLimit, RecursionError):
                done = False
        if done:
            continue
        for idx, val in enumerate(vals):
            if exps[idx] is None:
                continue

            def thunk(it, route=route, val=val):
                e, vobj, pt, number = mk(it, val)
                return run_route(it, route, e, vobj, var, pt, number)
            signs, renv = sv(val)
            outs[idx]["routes"][route] = [_judge_numeric(o, exps[idx], need_value, signs, renv)
                                          for o in run_paths(model, thunk, max_paths=12,
                                                             generic_only=generic_only)]

    for route in expr_routes:
        if not applicable(route):
            continue

        def thunk(it, route=route):
            e, vobj, pt, number = mk(it, None)
            ex = run_route(it, route, e, vobj, var, None, None)
            return obj_to_tree(it, ex), it.to_repr(ex)
        paths = run_paths(model, thunk, max_paths=8, max_steps=3000000)
        for idx, val in enumerate(vals):
            if exps[idx] is None:
                continue
            signs, renv = sv(val)
            outs[idx]["exprs"][route] = [_judge_expr(o, exps[idx], val, names, signs, renv) for o in paths]
    return outs


def _strip_sym(tree):
    k = tree[0]
    if k == "ConstantSym":
        if tree[2] is None:
            raise spec.Unknown("symbolic constant")
        return ("Constant", tree[2])
    if k in spec.LEAF:
        return tree
    if k in spec.NARY:
        return (k, [_strip_sym(c) for c in tree[1]])
    n = len(spec.children(tree))
    return (k,) + tuple(_strip_sym(c) for c in spec.children(tree)) + tuple(tree[1 + n:])


def second_order_group(args):
    """Worker for C05.second-order: Partial(Partial(e, v1).as_expression(), v2).at(p) against the
    second specification derivative, for all valuations of one (tree, v1, v2)."""
    from .interp_ops import Interpreter
    from .interp import InterpRaise, StepLimit
    tree, v1, v2, vals, early = args
    model = load_model()
    outs = []
    t = spec.value_term(tree)
    d2 = spec.diff(spec.diff(t, v1), v2)
    it = Interpreter(model, max_steps=6000000)
    it.generic_only = True
    it.reset_run([])
    stage = None
    try:
        e = build(it, tree, {})
        kw = {"compute_early": True} if early else {}
        first = _m(it, _ctor(it, "Partial", [e, v1], kw), "as_expression")
        second = _ctor(it, "Partial", [first, v2], kw)
    except InterpRaise as r:
        stage = {"status": "raised", "exc": exc_name(r.exc), "origin": exc_origin(r.exc)}
    except (Unsupported, StepLimit) as u:
        stage = {"status": "unsupported", "reason": str(u)}
    for val in vals:
        out = {"tree": spec.show(tree), "val": describe_val(val), "v1": v1, "v2": v2}
        try:
            r0 = spec.eval_iv(tree, val)
        except spec.Unknown as u:
            out["skip"] = str(u)
            outs.append(out)
            continue
        if r0[0] != "ok":
            out["skip"] = "original undefined"
            outs.append(out)
            continue
        if stage is not None:
            out.update(stage)
            outs.append(out)
            continue
        try:
            v = _m(it, second, "at", make_point(it, val))
        except InterpRaise as r:
            out.update(status="raised", exc=exc_name(r.exc), origin=exc_origin(r.exc))
            outs.append(out)
            continue
        except (Unsupported, StepLimit) as u:
            out.update(status="unsupported", reason=str(u))
            outs.append(out)
            continue
        if it.pos or not isinstance(v, (int, SymNum)) or isinstance(v, bool):
            out.update(status="unjudged")
            outs.append(out)
            continue
        signs = spec.signs_from_valuation({k: iv for k, iv in val.items() if not iv.is_point()})
        verdict, wit = compare_terms(SymNum.of(v).term, _subst_points(d2, val), signs, region_env=region_env(val))
        out["got"] = repr(v)
        if verdict == "equal":
            out["status"] = "ok"
        elif verdict == "differ":
            out.update(status="value-differs", witness=wit)
        elif verdict == "undef2":
            out["status"] = "unjudged"     # the second derivative itself is undefined there (e.g. at a kink)
        else:
            out.update(status="value-unknown", reason=f"{verdict}: {wit}")
        outs.append(out)
    return outs
