"""Instance enumeration and judging shared by the derivative properties C03, C04, C05, C07."""
from __future__ import annotations
import math

from .model import load_model
from .harness import partition, valuations
from . import spec
from .evalengine import (depth1_instances, depth2_instances, constant_child_instances, inspected_child_instances,
                         wide_nary_instances, pmap, param_class, region_class)
from .derivengine import deriv_group, ROUTES

E = math.e


def chain_instances(model, tier):
    """Compositions that exercise the chain/product/quotient rules with monomial arguments
    (so that every domain decision is determined by the sign regions)."""
    names = [c.name for c in model.concrete_expression_classes()]
    x, y = ("Variable", "x"), ("Variable", "y")
    xy = ("Multiply", [x, y])
    xx = ("Multiply", [x, x])
    out = []
    for k in names:
        if k in spec.UNARY:
            out.append(((k, xy), f"{k}(chain)"))
        elif k in ("NthPower", "NthRoot"):
            for n in ((1, 2, 3) if tier == "quick" else (1, 2, 3, 4, 5, 6)):
                out.append(((k, xy, n), f"{k}(chain)"))
        elif k == "Exponential":
            for b in (0.5, 1, E, 3.0):
                out.append(((k, xy, b), f"{k}(chain)"))
        elif k == "Logarithm":
            for b in (0.5, E, 10):
                out.append(((k, xy, b), f"{k}(chain)"))
        elif k in spec.BINARY:
            out.append(((k, xy, ("NthPower", y, 2)), f"{k}(chain)"))
            out.append(((k, x, x), f"{k}(same-variable)"))
            if k == "Power":
                out.append(((k, ("Constant", 1), x), "Power(base one)"))
                out.append(((k, ("Constant", 1.0), ("Multiply", [x, y])), "Power(base one)"))
                out.append(((k, ("Constant", 2), x), "Power(constant base)"))
                out.append(((k, ("Exponential", ("Constant", 0), 2), x), "Power(base evaluates to one)"))
                out.append(((k, x, ("Constant", 3)), "Power(constant exponent)"))
        elif k in spec.NARY:
            out.append(((k, [x, x, y]), f"{k}(repeated)"))
            out.append(((k, [xy, ("Negation", x), ("Constant", 2)]), f"{k}(chain)"))
    # a factor written twice next to a function of the same variable (the derivative then contains a
    # factor and its reciprocal / powers of it with different multiplicities)
    if "Multiply" in names:
        for k in names:
            if k in spec.UNARY:
                f = (k, x)
            elif k in ("NthPower", "NthRoot"):
                f = (k, x, 3)
            elif k == "Exponential":
                f = (k, x, 2)
            elif k == "Logarithm":
                f = (k, x, E)
            elif k in spec.BINARY:
                f = (k, x, y)
            else:
                continue
            out.append((("Multiply", [x, x, f]), f"Multiply(repeated factor, {k})"))
            if k in ("Logarithm", "Reciprocal", "NthRoot"):
                out.append(((k, ("Multiply", [x, x, y])) + f[2:], f"{k}(product with repeated factor)"))
    # sums / products of two nodes of one parameterised class with different parameters (one negated or
    # inverted), kept alive in the derivative by a separate factor
    w = ("Variable", "w")
    for k, (p1, p2) in (("Logarithm", (2, 10)), ("Logarithm", (E, 2)), ("Exponential", (2, 10)), ("NthRoot", (2, 3))):
        if k in names and "Add" in names and "Multiply" in names:
            a_, b_ = (k, x, p1), (k, y, p2)
            out.append((("Multiply", [w, ("Add", [a_, ("Negation", b_)])]), f"{k}(difference, different parameters)"))
            out.append((("Multiply", [w, ("Minus", a_, b_)]), f"{k}(difference, different parameters)"))
            out.append((("Sine", ("Multiply", [a_, ("Reciprocal", b_)])), f"{k}(quotient, different parameters)"))
    if "NthRoot" in names and "NthPower" in names:
        for (m, n) in ((2, 2), (2, 4), (4, 2), (3, 2), (2, 3), (3, 3)):
            par = lambda k: "even" if k % 2 == 0 else "odd"
            out.append((("NthRoot", ("NthPower", x, m), n), f"NthRoot[{par(n)}](NthPower[{par(m)}])"))
            out.append((("NthPower", ("NthRoot", x, m), n), f"NthPower[{par(n)}](NthRoot[{par(m)}])"))
    # variable names that are prefixes of one another
    v1, v2, v3 = ("Variable", "x"), ("Variable", "xy"), ("Variable", "x1")
    out.append((("Add", [("Multiply", [v1, v2]), ("NthPower", v3, 2), ("Multiply", [v2, v3])]), "names:prefixes"))
    # legal names that are not in Unicode normal form (strings are compared as given)
    u1, u2, u3 = ("Variable", "\u00b5"), ("Variable", "\uff58"), ("Variable", "x\u00b2")
    out.append((("Add", [("Multiply", [u1, u2]), ("NthPower", u3, 2)]), "names:unnormalised"))
    s = ("Multiply", [x, y])
    out.append((("Add", [s, ("NthPower", s, 2), s]), "dag:shared-product"))
    out.append((("Divide", ("Sine", s), ("Exponential", s, E)), "dag:shared-in-quotient"))
    out.append((("Multiply", [("NthRoot", xx, 3), ("Cosine", xx)]), "dag:shared-square"))
    return out


DEPTH2_ROUTES = ["Partial.at", "Partial(early).at", "LocatedDifferential.component",
                 "Differential(early).at.component", "Derivative.at", "Differential.component_at"]


def sparse_atoms(atoms):
    """A sub-family of the atoms that still separates <0, =0, (0,1), =1, >1."""
    keep = []
    for a in atoms:
        if a.is_point():
            if a.lo in (0.0, 1.0):
                keep.append(a)
        elif a.hi <= 0 and a.lo == -math.inf:
            keep.append(a)
        elif a.lo >= 1 and a.hi == math.inf:
            keep.append(a)
        elif a.lo == 0.0:
            keep.append(a)
    return keep


def derivative_cases(model, tier, include_undefined_children, routes, retain=False):
    """-> list of (tree, label, val, var, routes_for_case)"""
    atoms = partition(model, tier)
    coarse = partition(model, "quick")
    sparse = sparse_atoms(coarse)
    inst1, unknown = depth1_instances(model, tier)
    inst = [(t, l, False) for (t, l) in inst1 if t[0] != "Constant" or t[1] in (0, 2.0)]
    inst += [(t, l, False) for (t, l) in chain_instances(model, tier)]
    inst += [(t, l, False) for (t, l) in constant_child_instances(model, tier)]
    wide = [(t, l) for (t, l) in inspected_child_instances(model, tier) if "<same" not in l] + \
        wide_nary_instances(model, tier)
    if retain:
        # the derivative with respect to a separate factor RETAINS the instance as a sub-expression of the
        # returned expression, which as_expression() then simplifies: every shape a rewrite rule keys on
        keep = ("Variable", "kept_factor")
        wide += [(("Multiply", [keep, t]), f"retained:{l}") for (t, l) in wide if "<same" not in l]
    if include_undefined_children:
        from .simpengine import variable_free_inputs
        vfi = variable_free_inputs(model)
        wide += [(t, "variable-free:" + l) for (t, l) in vfi if not spec.variables(t)]
        # a variable-free (possibly undefined) term next to a variable under the parents whose rules
        # do not evaluate their children themselves (sums and differences, also nested): every route
        # must still notice it -- "no variable in it" is not "nothing to check"
        xv, yv = ("Variable", "x"), ("Variable", "y")
        for (b, l) in vfi:
            if l != "fold":
                continue
            wide += [(("Add", [xv, b]), "variable-free-term:last"), (("Add", [b, xv]), "variable-free-term:first"),
                     (("Minus", xv, b), "variable-free-term:subtrahend"), (("Minus", b, xv), "variable-free-term:minuend"),
                     (("Add", [xv, ("Minus", yv, ("Add", [b, yv]))]), "variable-free-term:nested")]
    if include_undefined_children:
        inst += [(t, l, True) for (t, l) in depth2_instances(model, tier)]
    cases = []
    d2_routes = [r for r in routes if r in DEPTH2_ROUTES] if tier == "quick" else routes
    from .simpengine import SIGN_REGIONS
    for tree, label in wide:
        names = spec.variables(tree)
        vars_ = names[:1] + names[-1:] if len(names) > 1 else (list(names) or ["absent"])
        for val in valuations(names, SIGN_REGIONS if len(names) > 1 else coarse):
            for v in dict.fromkeys(vars_):
                cases.append((tree, label, val, v, d2_routes if tier == "quick" else routes))
    for tree, label, is_d2 in inst:
        names = spec.variables(tree)
        if is_d2:
            use = sparse if (tier == "quick" or len(names) > 2) else coarse
            vars_ = names[:1] + ["absent"] if tier == "quick" else list(names) + ["absent"]
        else:
            use = atoms if len(names) <= 1 else coarse
            vars_ = list(names) + ["absent"]
        for val in valuations(names, use):
            for v in vars_:
                # the non-occurring variable is exercised on a third of the valuations
                if v == "absent" and (len(cases) % 3):
                    continue
                cases.append((tree, label, val, v, d2_routes if is_d2 else routes))
    return cases, unknown


VALUE_BAD = {"value-differs"}
RAISE_BAD = {"missing-raise", "spurious-raise", "wrong-exception", "not-a-real"}


def run_derivative_property(rep, prop, routes, expr_routes, judge_mode, explanation,
                            include_undefined_children=False):
    model = load_model()
    tier = rep.tier
    cases, unknown = derivative_cases(model, tier, include_undefined_children, routes, retain=(judge_mode == "expr"))
    need_value = judge_mode in ("value", "expr")
    groups = {}
    for idx, (t, l, v, var, rts) in enumerate(cases):
        groups.setdefault((id(t), var, tuple(rts)), (t, var, rts, []))[3].append(idx)
    glist = list(groups.values())
    # big groups are split so the pool stays busy
    tasks = []
    for (t, var, rts, idxs) in glist:
        for k in range(0, len(idxs), 40):
            part = idxs[k:k + 40]
            tasks.append(((t, var, [cases[i][2] for i in part], rts, expr_routes, need_value, tier), part))
    gres = pmap(deriv_group, [a for (a, _p) in tasks], chunksize=1)
    results = [None] * len(cases)
    for (a, part), outs in zip(tasks, gres):
        for i, o in zip(part, outs):
            results[i] = o
    per = {}
    for (tree, label, val, var, _rts), out in zip(cases, results):
        if "skip" in out:
            rep.count("cases_skipped_sign_undetermined")
            continue
        for route, res in list(out["routes"].items()) + list(out["exprs"].items()):
            key = (label, route)
            d = per.setdefault(key, [0, 0])
            d[0] += 1
            bad = False
            for r in res:
                rep.count("paths_interpreted")
                st = r["status"]
                construct = f"{label} via {route}"
                where = r.get("origin", "")
                desc = (f"{out['tree']} d/d{var} at {{{out['val']}}} via {route}: "
                        f"expected {out['expected']}" + (f" ({out['undef']})" if 'undef' in out else ""))
                if st == "unsupported":
                    rep.unknown(f"{prop}.route", construct, where, f"interpreter: {r['reason']}")
                    bad = True
                    continue
                is_bad = False
                if judge_mode == "value" and st in VALUE_BAD:
                    is_bad = True
                    msg = (f"{desc}; computed {r.get('got')} which differs from the true partial, e.g. at "
                           f"{r['witness']['at']}: code {r['witness']['values'][0]:.6g} vs true "
                           f"{r['witness']['values'][1]:.6g}")
                elif judge_mode == "value" and st == "spurious-raise":
                    # the property promises the true partial at every point of the domain: an exception there
                    # (of whatever type) is not that number
                    is_bad = True
                    msg = f"{desc}; raised {r.get('exc')}" + (f" at {where}" if where else "") + " instead of returning it"
                elif judge_mode == "raise" and st in RAISE_BAD:
                    is_bad = True
                    msg = f"{desc}; got {r.get('exc') or r.get('got')}" + (f" raised at {where}" if where else "")
                elif judge_mode == "expr" and st in ("ill-formed", "new-variable", "derivative-undefined",
                                                     "value-differs", "raised"):
                    is_bad = True
                    if st == "value-differs":
                        msg = (f"{desc}; as_expression() = {r.get('expr')} whose value differs from the true "
                               f"partial, e.g. at {r['witness']['at']}: {r['witness']['values'][0]:.6g} vs "
                               f"{r['witness']['values'][1]:.6g}")
                    else:
                        msg = f"{desc}; as_expression() = {r.get('expr')}: {st} {r.get('reason') or r.get('exc')}"
                elif st == "value-unknown" and judge_mode in ("value", "expr") and not r["imprecise"]:
                    rep.unknown(f"{prop}.value", construct, where,
                                f"{desc}: {r.get('expr') or r.get('got')}: {r['reason']}")
                    bad = True
                if is_bad:
                    bad = True
                    if r["imprecise"] and st in VALUE_BAD:
                        rep.count("paths_not_judged_undecided_branch")
                    elif r["imprecise"]:
                        rep.unknown(f"{prop}.{judge_mode}", construct, where, "only on an undecided path: " + msg)
                    else:
                        wc = f"{st} {param_class(tree)}"
                        if judge_mode != "raise":
                            wc += f" [{region_class(val)}]"
                        rep.violation(f"{prop}.{judge_mode}", construct, where, msg,
                                      witness={k: v for k, v in r.items() if k != "tree"}, witness_class=wc)
            if not bad:
                d[1] += 1
    for (label, route), (n, good) in sorted(per.items()):
        if n == good:
            cname = label.split("(")[0].split("<")[0].split(":")[0].split("[")[0]
            where = model.cls(cname).where if cname in model.classes else ""
            rep.ok(f"{prop}.{judge_mode}", f"{label} via {route}", where,
                   f"{n} variable/region/parameter cases agree with the specification", cases=n)
    for i in (0, len(cases) // 2, len(cases) - 1):
        t, l, v, var, _r = cases[i]
        o = results[i]
        rep.sample({"instance": spec.show(t), "d/d": var, "regions": region_class(v),
                    "routes": {k: [r.get("exc") or r.get("got") or r.get("expr") or r["status"] for r in rs]
                               for k, rs in list(o.get("routes", {}).items()) + list(o.get("exprs", {}).items())}})
    for k in unknown:
        rep.assume(f"class {k} has no row in the specification table and is not judged")
    rep.extra["instances_x_valuations_x_variables"] = len(cases)
    rep.assume("floating-point rounding is not decided; the analysis proves the real-arithmetic identity",
               "the calculus table (spec.diff) and specification reading (spec.value_term) are the oracle")
    return per
