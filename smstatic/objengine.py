"""Pools of expression / point / derivative objects for C12 (equality, hashing) and C13
(printing), and a parser of printed constructor calls."""
from __future__ import annotations
import ast
import math

from .model import load_model
from .harness import build, cref, run_paths, exc_name, exc_origin
from .values import SymNum, Obj, HashVal
from . import spec

E = math.e


def expression_pool(model, tier):
    """Trees over all constructors with all parameter kinds, including pairs that differ in
    exactly one parameter, one leaf, one argument position or the arity, and numerically equal
    int/float spellings."""
    names = {c.name for c in model.concrete_expression_classes()}
    x, y, z = ("Variable", "x"), ("Variable", "y"), ("Variable", "long_name_2")
    pool = [x, y, z, ("Constant", 2), ("Constant", 2.0), ("Constant", 3), ("Constant", -1.5), ("Constant", 0),
            ("Constant", -0.0), ("Constant", 1e-07), ("Constant", 123456789.125)]
    for k in ("Negation", "Reciprocal", "Sine", "Cosine"):
        if k in names:
            pool += [(k, x), (k, y)]
    for k in ("NthPower", "NthRoot"):
        if k in names:
            pool += [(k, x, 2), (k, x, 2.0), (k, x, 3), (k, y, 2), (k, x, 1)]
    if "Exponential" in names:
        pool += [("Exponential", x, E), ("Exponential", x, 2), ("Exponential", x, 2.0), ("Exponential", x, 0.5),
                 ("Exponential", y, 2), ("Exponential", x, 1)]
    if "Logarithm" in names:
        pool += [("Logarithm", x, E), ("Logarithm", x, 2), ("Logarithm", x, 2.0), ("Logarithm", x, 10),
                 ("Logarithm", y, 2)]
    for k in ("Minus", "Divide", "Power"):
        if k in names:
            pool += [(k, x, y), (k, y, x), (k, x, x)]
    for k in ("Add", "Multiply"):
        if k in names:
            pool += [(k, []), (k, [x]), (k, [x, y]), (k, [y, x]), (k, [x, y, z]), (k, [x, x]), (k, [x, x, x])]
    # same shape, different class
    if {"Add", "Multiply", "Minus", "NthPower", "NthRoot", "Negation"} <= names:
        pool += [("Add", [("Multiply", [x, y]), ("Negation", z)]),
                 ("Add", [("Multiply", [x, y]), ("Negation", y)]),
                 ("Minus", ("NthPower", ("Add", [x, ("Constant", 1)]), 2), ("NthRoot", ("Add", [x, ("Constant", 1)]), 2)),
                 ("Minus", ("NthRoot", ("Add", [x, ("Constant", 1)]), 2), ("NthPower", ("Add", [x, ("Constant", 1)]), 2)),
                 ("Logarithm", ("Exponential", ("Divide", x, y), 3.0), 3),
                 ("Power", ("Sine", x), ("Cosine", ("Reciprocal", y)))]
    # near-miss numeric content: values one ulp / one part in 1e12 away from a special value
    near_e = math.nextafter(E, 3.0)
    if "Logarithm" in names:
        pool += [("Logarithm", x, near_e), ("Logarithm", x, 2.718281828), ("Logarithm", x, 10 * (1 + 1e-12)),
                 ("Logarithm", x, 0.3), ("Logarithm", x, 0.1 + 0.2)]
    if "Exponential" in names:
        pool += [("Exponential", x, near_e), ("Exponential", x, 1 + 1e-12), ("Exponential", x, 0.3),
                 ("Exponential", x, 0.1 + 0.2)]
    pool += [("Constant", 0.3), ("Constant", 0.1 + 0.2), ("Constant", 2.0000000000000004), ("Constant", -1),
             ("Constant", -2), ("Constant", 1e-300),
             # floats printed in exponent notation (exponents ending in 0 and not), whole and not
             ("Constant", 1e20), ("Constant", 1e200), ("Constant", -3e30), ("Constant", 1.5e100), ("Constant", 1e16),
             ("Constant", 1e22), ("Constant", 2.5e-10), ("Constant", 100.0), ("Constant", 6.0), ("Constant", 10 ** 20)]
    if "Exponential" in names:
        pool += [("Exponential", x, 1e20), ("Exponential", x, 1e10)]
    if "Add" in names:
        pool += [("Add", [x, ("Constant", -1)]), ("Add", [x, ("Constant", -2)])]
    # a node whose only / first / last child is a node of the SAME class (text handling keyed on the
    # parent's own name or opener; equality or hashing that flattens)
    for k in ("Add", "Multiply"):
        if k in names:
            pool += [(k, [(k, [x, y])]), (k, [(k, [x])]), (k, [(k, [])]), (k, [(k, [x, y]), x]), (k, [x, (k, [x, y])])]
    for k in ("Negation", "Reciprocal", "Sine"):
        if k in names:
            pool += [(k, (k, x))]
    for k in ("Minus", "Divide", "Power"):
        if k in names:
            pool += [(k, (k, x, y), y), (k, x, (k, x, y))]
    if tier != "quick":
        pool += [("NthPower", ("NthRoot", x, k), k + 1) for k in range(1, 6)]
        pool += [("Exponential", ("Logarithm", x, b), b) for b in (2, 0.25, 10.0)]
    return pool


POINTS = [{}, {"x": 3}, {"x": 3.0}, {"x": 4}, {"y": 3}, {"x": 3, "y": 4.5}, {"y": 4.5, "x": 3},
          {"x": 3, "y": 4.5, "long_name_2": -1}, {"x": -2.5e-05}, {"x": 1234567.0}, {"x": 1234568.0}, {"x": 1e22},
          {"x": 123456789.125}, {"x": 100000.0}, {"x": -0.0}, {"x": 1e-07}, {"t": 12345678},
          # floats whose shortest exact repr needs 16-17 significant digits, and tiny ones
          {"x": 0.1 + 0.2}, {"x": 0.3}, {"x": 1 / 3, "y": 4}, {"x": 2.5e-17}, {"x": 2.0000000000000004, "y": 1e-300}]


def tree_equal(a, b) -> bool:
    """The specification of structural equality (C12): same constructor, pairwise equal
    arguments in the same order, numerically equal parameters."""
    if a[0] != b[0]:
        return False
    k = a[0]
    if k == "Variable":
        return a[1] == b[1]
    if k == "Constant":
        return a[1] == b[1]
    if k in spec.NARY:
        return len(a[1]) == len(b[1]) and all(tree_equal(p, q) for p, q in zip(a[1], b[1]))
    if k in spec.BINARY:
        return tree_equal(a[1], b[1]) and tree_equal(a[2], b[2])
    if k in spec.UNARY:
        return tree_equal(a[1], b[1])
    return tree_equal(a[1], b[1]) and a[2] == b[2]


_FOREIGN_CLASSES = {}


def impostor(it, class_name: str, attrs: dict) -> Obj:
    """An instance of a class that is NOT the package's but has the same __name__ (a caller's own
    class, or e.g. ast.Add): no methods, default object equality, the given instance attributes."""
    import ast as _ast
    from .model import ClassInfo, ModuleInfo
    ci = _FOREIGN_CLASSES.get(class_name)
    if ci is None:
        src = f"class {class_name}:\n    pass\n"
        tree = _ast.parse(src)
        mod = ModuleInfo(name="<foreign>", path="", rel="<foreign code>", tree=tree, source=src, is_package=False)
        ci = _FOREIGN_CLASSES[class_name] = ClassInfo(name=class_name, node=tree.body[0], module=mod, base_exprs=[],
                                                      foreign=True)
    o = Obj(ci)
    o.attrs.update(attrs)
    return o


def make_point_concrete(it, coords: dict) -> Obj:
    kw = {k: (SymNum.of(v) if isinstance(v, float) else v) for k, v in coords.items()}
    return it.call(cref(it.model, "Point"), [], kw)


# ------------------------------------------------------------------ parsing printed forms
class PrintedFormError(Exception):
    pass


def parse_printed(text: str):
    """Parse a printed constructor call into a neutral structure:
       ('call', name, [positional...], {keyword: value}) | ('num', v) | ('str', s)"""
    try:
        node = ast.parse(text, mode="eval").body
    except SyntaxError as e:
        raise PrintedFormError(f"not a Python expression: {e.msg}")
    return _conv(node)


def _conv(n):
    if isinstance(n, ast.Call):
        if not isinstance(n.func, ast.Name):
            raise PrintedFormError("callee is not a plain name")
        pos = [_conv(a) for a in n.args]
        kw = {}
        for k in n.keywords:
            if k.arg is None:
                raise PrintedFormError("**kwargs in printed form")
            kw[k.arg] = _conv(k.value)
        return ("call", n.func.id, pos, kw)
    if isinstance(n, ast.Constant):
        if isinstance(n.value, str):
            return ("str", n.value)
        if isinstance(n.value, (int, float)) and not isinstance(n.value, bool):
            return ("num", n.value)
        raise PrintedFormError(f"unexpected literal {n.value!r}")
    if isinstance(n, ast.UnaryOp) and isinstance(n.op, (ast.USub, ast.UAdd)):
        v = _conv(n.operand)
        if v[0] != "num":
            raise PrintedFormError("sign applied to a non-number")
        return ("num", -v[1] if isinstance(n.op, ast.USub) else v[1])
    if isinstance(n, ast.Name) and n.id in ("inf", "nan"):
        raise PrintedFormError(f"{n.id} is not a public name")
    raise PrintedFormError(f"unexpected syntax {type(n).__name__}")


def printed_to_tree(p):
    """('call', ...) of an expression constructor -> instance tree (public signatures)."""
    if p[0] != "call":
        raise PrintedFormError("expected a constructor call")
    _, name, pos, kw = p
    if name == "Variable":
        if len(pos) != 1 or pos[0][0] != "str" or kw:
            raise PrintedFormError("Variable takes one string")
        return ("Variable", pos[0][1])
    if name == "Constant":
        if len(pos) != 1 or pos[0][0] != "num" or kw:
            raise PrintedFormError("Constant takes one number")
        return ("Constant", pos[0][1])
    if name in spec.NARY:
        if kw:
            raise PrintedFormError(f"{name} takes no keywords")
        return (name, [printed_to_tree(a) for a in pos])
    if name in spec.BINARY:
        if len(pos) != 2 or kw:
            raise PrintedFormError(f"{name} takes two operands")
        return (name, printed_to_tree(pos[0]), printed_to_tree(pos[1]))
    if name in spec.UNARY:
        if len(pos) != 1 or kw:
            raise PrintedFormError(f"{name} takes one operand")
        return (name, printed_to_tree(pos[0]))
    if name in ("NthPower", "NthRoot", "Exponential", "Logarithm"):
        pname = "n" if name in ("NthPower", "NthRoot") else "base"
        args = list(pos)
        if not args:
            raise PrintedFormError(f"{name} without operand")
        inner = printed_to_tree(args[0])
        if len(args) == 2 and not kw:
            par = args[1]
        elif len(args) == 1 and set(kw) == {pname}:
            par = kw[pname]
        elif len(args) == 1 and not kw and pname == "base":
            return (name, inner, E)
        else:
            raise PrintedFormError(f"{name}: unexpected arguments {sorted(kw)}")
        if par[0] != "num":
            raise PrintedFormError(f"{name}: parameter is not a number")
        return (name, inner, par[1])
    raise PrintedFormError(f"{name} is not an expression constructor")
